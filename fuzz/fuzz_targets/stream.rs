//! Engine B: libFuzzer target.  The input bytes are reinterpreted as the same u32 choice
//! stream the proptest engine uses and fed to the same decode+check of the property named
//! in VERIF_PROP, so the semantic oracle sits inside the target.  Expected panics of the
//! library are caught by the harness; the process aborts only for a violation that no
//! known-finding signature covers, after writing the replay file.
#![no_main]
use libfuzzer_sys::fuzz_target;
use ohsl_verif::engine::{self, Outcome, Tier};
use ohsl_verif::findings::Findings;
use std::sync::OnceLock;

struct Ctx {
    prop: Box<dyn engine::Prop>,
    findings: Findings,
    tier: Tier,
}
static CTX: OnceLock<Ctx> = OnceLock::new();

fn ctx() -> &'static Ctx {
    CTX.get_or_init(|| {
        let id = std::env::var("VERIF_PROP").unwrap_or_else(|_| "C01".to_string());
        let prop = ohsl_verif::props::all().into_iter().find(|p| p.id() == id).expect("unknown property in VERIF_PROP");
        ohsl_verif::silence_stdout();
        // libfuzzer-sys installs an aborting panic hook: replace it with the harness's recording hook
        engine::install_panic_hook();
        Ctx { prop, findings: Findings::load(), tier: Tier::Thorough }
    })
}

fuzz_target!(|data: &[u8]| {
    let c = ctx();
    let stream = ohsl_verif::stream::bytes_to_stream(data);
    let (out, _info) = engine::run_one(c.prop.as_ref(), &stream, c.tier, false, &c.findings);
    if let Outcome::Fail(msg) = out {
        let small = engine::shrink_stream(c.prop.as_ref(), &stream, 0, c.tier, &c.findings);
        let (_, info) = engine::run_one(c.prop.as_ref(), &small, c.tier, true, &c.findings);
        let f = engine::Failure { engine: "libfuzzer", stream: small, message: msg, rendered: info.render.unwrap_or_default() };
        let path = engine::write_replay(c.prop.id(), &f);
        ohsl_verif::out(&format!("FUZZ-VIOLATION property={} replay={}", c.prop.id(), path));
        std::process::abort();
    }
});
