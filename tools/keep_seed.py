#!/usr/bin/env python3
"""keep_seed.py <ID> <k> <slug> <caught_by (comma list)> <needs...>   -> /verif/seeded/<ID>-<slug>/"""
import sys, os, shutil, json, subprocess
pid, k, slug, caught = sys.argv[1:5]
needs = " ".join(sys.argv[5:])
wt = os.environ.get("WT_PREFIX", "/tmp/wt_") + pid
dst = f"/verif/seeded/{pid}-{slug}"
os.makedirs(dst, exist_ok=True)
shutil.copy(f"{wt}/_seed/patch{k}.diff", f"{dst}/patch.diff")
shutil.copy(f"{wt}/_seed/seed_demo_{k}.rs", f"{dst}/demo_test.rs")
notes = open(f"{wt}/_seed/notes.md").read()
open(f"{dst}/author_notes.md", "w").write(notes)
files = subprocess.check_output(["grep", "-E", r"^\+\+\+ ", f"{dst}/patch.diff"]).decode().split()
meta = {
    "property": pid,
    "breaks": f"property {pid}",
    "files_changed": [f for f in files if f.startswith("b/")],
    "needs_to_manifest": needs,
    "produced_by": "independent sub-agent given only the property text and a scratch worktree",
    "confirmed": {
        "how": f"tools/try_seed.sh {pid} {k}: in the scratch worktree `git apply patch.diff`; `cargo test --offline --test tests` -> 236 passed, 0 failed; `cargo test --offline --test seed_demo_{k}` -> FAILED with the patch, ok without it; then `git -C /repo apply patch.diff`, `./check <ids> quick`, `git -C /repo checkout -- .`",
        "suite_with_patch": "236 passed, 0 failed",
        "demo_with_patch": "fails",
        "demo_without_patch": "passes",
    },
    "caught_by_quick_checks": [c for c in caught.split(",") if c and c != "-"],
}
json.dump(meta, open(f"{dst}/meta.json", "w"), indent=1)
print("kept", dst)
