#!/usr/bin/env python3
"""Apply every kept seeded change to /repo in turn, run all quick checks, record which ones report a
violation, revert.  Writes seeded/RESULTS.md and updates each meta.json (caught_by_quick_checks)."""
import json, os, subprocess, sys, glob, time
V = os.environ.get("MX_VERIF", "/verif")
REPO = os.environ.get("MX_REPO", "/repo")
ids = [json.loads(l)["id"] for l in open(f"{V}/properties.jsonl")]
only = sys.argv[1:]
rows = []
assert subprocess.run(["git", "-C", REPO, "status", "--short"], capture_output=True, text=True).stdout.strip() == "", "/repo not clean"
dirs = sorted(glob.glob(f"{V}/seeded/C*-*")) + sorted(glob.glob(f"{V}/mutants/C*.diff"))
for d in dirs:
    name = os.path.basename(d)
    if only and not any(name.startswith(o) for o in only):
        continue
    is_mut = d.endswith(".diff")
    patch = d if is_mut else f"{d}/patch.diff"
    meta = {"property": name[:3]} if is_mut else json.load(open(f"{d}/meta.json"))
    r = subprocess.run(["git", "-C", REPO, "apply", patch])
    if r.returncode != 0:
        rows.append((name, "PATCH DOES NOT APPLY", [], []))
        continue
    caught, broken = [], []
    t0 = time.time()
    try:
        for pid in ids:
            p = subprocess.run([f"{V}/check", pid, "quick"], capture_output=True, text=True, cwd=V, timeout=1200, env=dict(os.environ, VERIF_REPO=REPO))
            if p.returncode == 1 and "VIOLATION" in p.stdout:
                caught.append(pid)
            elif p.returncode != 0:
                broken.append(f"{pid}(rc={p.returncode})")
    finally:
        subprocess.run(["git", "-C", REPO, "checkout", "--", "."])
    meta["caught_by_quick_checks"] = caught
    meta["matrix_run"] = {"all_quick_checks_run": True, "inconclusive": broken, "seconds": round(time.time() - t0)}
    if not is_mut:
        json.dump(meta, open(f"{d}/meta.json", "w"), indent=1)
    rows.append((name, "caught" if meta["property"] in caught else "MISSED by its own property's check", caught, broken))
    print(name, caught, broken, flush=True)
if only:
    # partial run: merge into the existing table
    old = {}
    for l in open(f"{V}/seeded/RESULTS.md"):
        if l.startswith("| C"):
            c = [x.strip() for x in l.strip().strip("|").split("|")]
            old[c[0]] = (c[0], c[1], [x.strip() for x in c[2].split(",") if x.strip() != "-"], [x.strip() for x in c[3].split(",") if x.strip() != "-"])
    for r in rows:
        old[r[0]] = r
    rows = [old[k] for k in sorted(old, key=lambda n: (n.endswith(".diff"), n))]
with open(f"{V}/seeded/RESULTS.md", "w") as f:
    f.write("# Seeded changes vs quick checks\n\nEach change (seeded/: from independent sub-agents; mutants/: hand-written, kept only if the 236 tests still pass) was applied to the repository (`git -C /repo apply`), all 20 quick checks were run, and /repo was reverted.\n\n| seeded change | own property | quick checks reporting a VIOLATION | inconclusive |\n|---|---|---|---|\n")
    for name, st, caught, broken in rows:
        f.write(f"| {name} | {st} | {', '.join(caught) or '-'} | {', '.join(broken) or '-'} |\n")
print("done")
