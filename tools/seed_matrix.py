#!/usr/bin/env python3
"""Apply every kept seeded change to /repo in turn, run all quick checks, record which ones report a
violation, revert.  Writes seeded/RESULTS.md and updates each meta.json (caught_by_quick_checks)."""
import json, os, subprocess, sys, glob, time
V = "/verif"
ids = [json.loads(l)["id"] for l in open(f"{V}/properties.jsonl")]
only = sys.argv[1:]
rows = []
assert subprocess.run(["git", "-C", "/repo", "status", "--short"], capture_output=True, text=True).stdout.strip() == "", "/repo not clean"
for d in sorted(glob.glob(f"{V}/seeded/C*-*")):
    name = os.path.basename(d)
    if only and not any(name.startswith(o) for o in only):
        continue
    meta = json.load(open(f"{d}/meta.json"))
    r = subprocess.run(["git", "-C", "/repo", "apply", f"{d}/patch.diff"])
    if r.returncode != 0:
        rows.append((name, "PATCH DOES NOT APPLY", [], []))
        continue
    caught, broken = [], []
    t0 = time.time()
    try:
        for pid in ids:
            p = subprocess.run([f"{V}/check", pid, "quick"], capture_output=True, text=True, cwd=V, timeout=1200)
            if p.returncode == 1 and "VIOLATION" in p.stdout:
                caught.append(pid)
            elif p.returncode != 0:
                broken.append(f"{pid}(rc={p.returncode})")
    finally:
        subprocess.run(["git", "-C", "/repo", "checkout", "--", "."])
    meta["caught_by_quick_checks"] = caught
    meta["matrix_run"] = {"all_quick_checks_run": True, "inconclusive": broken, "seconds": round(time.time() - t0)}
    json.dump(meta, open(f"{d}/meta.json", "w"), indent=1)
    rows.append((name, "caught" if meta["property"] in caught else "MISSED by its own property's check", caught, broken))
    print(name, caught, broken, flush=True)
with open(f"{V}/seeded/RESULTS.md", "w") as f:
    f.write("# Seeded changes vs quick checks\n\nEach change was applied to /repo (`git -C /repo apply`), all 20 quick checks were run, and /repo was reverted.\n\n| seeded change | own property | quick checks reporting a VIOLATION | inconclusive |\n|---|---|---|---|\n")
    for name, st, caught, broken in rows:
        f.write(f"| {name} | {st} | {', '.join(caught) or '-'} | {', '.join(broken) or '-'} |\n")
print("done")
