#!/usr/bin/env python3
"""For every seeded change / mutant: apply it to a scratch clone, rebuild a scratch copy of the harness against it and run the own
property's quick check under several further seeds; report how many seeds detect it (results: seeded/ROBUSTNESS.md).
Set-up (outside /repo and /verif, removed afterwards): git clone /repo /tmp/ohsl-robust/repo; copy /verif (without harness/target) to
/tmp/ohsl-robust/verif and point harness/Cargo.toml's ohsl path at the clone."""
import glob,os,subprocess,sys,json
seeds=[1,2,3,4,5,6]
only=sys.argv[1:]
dirs=sorted(glob.glob('/verif/seeded/C*-*'))+sorted(glob.glob('/verif/mutants/C*.diff'))
out=open('/tmp/ohsl-robust/robust.log','a')
for d in dirs:
    name=os.path.basename(d)
    if only and not any(name.startswith(o) for o in only): continue
    pid=name[:3]
    if pid=='C16': seeds_l=[1,2]
    else: seeds_l=seeds
    patch=d if d.endswith('.diff') else d+'/patch.diff'
    r=subprocess.run(['git','-C','/tmp/ohsl-robust/repo','apply',patch],capture_output=True)
    if r.returncode!=0:
        print(name,'PATCH-FAILS',file=out,flush=True); continue
    try:
        b=subprocess.run('cd /tmp/ohsl-robust/verif/harness && CARGO_NET_OFFLINE=true cargo build --release --offline 2>&1 | tail -1',shell=True,capture_output=True,text=True)
        hits=0; res=[]
        for s in seeds_l:
            p=subprocess.run(['/tmp/ohsl-robust/verif/harness/target/release/ohsl-verif','--property',pid,'--tier','quick','--seed',str(s)],capture_output=True,text=True,env=dict(os.environ,VERIF_DIR='/tmp/ohsl-robust/verif'))
            v='VIOLATION' in p.stdout
            hits+=v; res.append('V' if v else ('-' if p.returncode==0 else 'E%d'%p.returncode))
        print(name,hits,len(seeds_l),''.join(res),file=out,flush=True)
    finally:
        subprocess.run(['git','-C','/tmp/ohsl-robust/repo','checkout','--','.'])
print('done',file=out,flush=True)
