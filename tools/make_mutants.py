#!/usr/bin/env python3
"""Hand-written mutants (DESIGN.md section 7).  Each is applied to the scratch worktree /tmp/wt_mut; it is kept as
/verif/mutants/<name>.diff only if the crate still compiles and its 236 tests still pass."""
import subprocess, os, sys
WT = "/tmp/wt_mut"
M = [
 ("C01-pivot-search-starts-one-row-low", "C01", "src/matrix/solve.rs", "        let pivot: usize = self.max_abs_in_column( k, k );", "        let pivot: usize = if k + 1 < self.rows { self.max_abs_in_column( k, k + 1 ).max( k ) } else { k };"),
 ("C02-determinant-sign-parity-dropped", "C02", "src/matrix/solve.rs", "        if pivots % 2 == 0 { det } else { - det }", "        let _ = pivots; det"),
 ("C03-get-col-wrong-stride", "C03", "src/matrix/operations.rs", "            result[ i ] = self.mat[ i * self.cols + col ];", "            result[ i ] = self.mat[ i * self.rows + col ];"),
 ("C03-delete-row-wrong-range", "C03", "src/matrix/operations.rs", "        self.mat.drain( row * self.cols..(row+1) * self.cols );", "        self.mat.drain( row * self.rows..row * self.rows + self.cols );"),
 ("C03-fill-band-negative-offset", "C03", "src/matrix/operations.rs", "            if (i as usize) < self.cols &&  i >= 0 {", "            if (i as usize) < self.rows &&  i >= 0 {"),
 ("C04-banded-product-window", "C04", "src/banded.rs", "            let tmploop = std::cmp::min( m1 + m2 + 1, n - k );", "            let tmploop = std::cmp::min( m1 + m2 + 1, n - k - ( if m2 > m1 + 1 { 1 } else { 0 } ) );"),
 ("C04-banded-det-sign", "C04", "src/banded.rs", "                *d = -*d;", "                if self.m1 < 2 { *d = -*d; }"),
 ("C05-tridiag-det-recurrence-index", "C05", "src/tridiagonal.rs", "                   - self.sub[ j - 2 ] * self.sup[ j - 2 ] * f[ j - 2 ];", "                   - self.sub[ j - 2 ] * self.sup[ if j > 2 { j - 3 } else { 0 } ] * f[ j - 2 ];"),
 ("C05-tridiag-transpose-noop-for-small", "C05", "src/tridiagonal.rs", "        let temp = self.sub.clone();\n        self.sub = self.sup.clone();", "        if self.n < 3 { return; }\n        let temp = self.sub.clone();\n        self.sub = self.sup.clone();"),
 ("C06-insert-overwrite-wrong-slot", "C06", "src/sparse.rs", "            if ( self.row_index[ k ] == row ) && ( col_index[ k ] == col ) {\n                self.val[ k ] = value;", "            if ( self.row_index[ k ] == row ) && ( col_index[ k ] >= col ) {\n                self.val[ k ] = value;"),
 ("C07-transpose-multiply-wrong-index", "C07", "src/sparse.rs", "                result[ i ] += self.val[ k ] * x[ self.row_index[ k ] ];", "                result[ i ] += self.val[ k ] * x[ self.row_index[ k ].min( self.cols - 1 ) ];"),
 ("C08-bicgstab-ok-before-half-step", "C08", "src/sparse.rs", "            if resid <= tol {\n                *x += phat.clone() * alpha;\n                return Ok( i );", "            if resid <= tol {\n                return Ok( i );"),
 ("C08-cg-residual-of-previous-iterate", "C08", "src/sparse.rs", "            *x += p.clone() * alpha;\n            r -= q.clone() * alpha;\n            resid = r.norm_2() / normb;\n            if resid <= tol { return Ok( i ); }\n            rho_1 = rho;", "            r -= q.clone() * alpha;\n            resid = r.norm_2() / normb;\n            if resid <= tol { return Ok( i ); }\n            *x += p.clone() * alpha;\n            rho_1 = rho;"),
 ("C09-cg-beta-inverted", "C09", "src/sparse.rs", "                beta = rho / rho_1;\n                p = z.clone() + p.clone() * beta;", "                beta = rho_1 / rho;\n                p = z.clone() + p.clone() * beta;"),
 ("C09-qmr-eta-sign", "C09", "src/sparse.rs", "            eta = -eta * rho_1 * gamma * gamma / ( beta * gamma_1 * gamma_1 );", "            eta = -eta * rho_1 * gamma * gamma_1 / ( beta * gamma_1 * gamma_1 );"),
 ("C10-quadratic-sgn-flipped", "C10", "src/polynomial/mod.rs", "        if sgn >= 0.0 { sgn = 1.0; } else { sgn = -1.0; }", "        if sgn > 0.0 { sgn = 1.0; } else { sgn = -1.0; }"),
 ("C10-cubic-root-of-unity-conjugated", "C10", "src/polynomial/mod.rs", "            let u2 = u * u;", "            let u2 = u * u.conj() * u;"),
 ("C11-derivative-off-by-one", "C11", "src/polynomial/mod.rs", "            for _ in 0..=i {\n                p.coeffs[ i ] = p.coeffs[ i ] + self.coeffs[ i + 1 ].clone();", "            for _ in 0..=i.min( 6 ) {\n                p.coeffs[ i ] = p.coeffs[ i ] + self.coeffs[ i + 1 ].clone();"),
 ("C11-sub-empty-lhs-not-negated", "C11", "src/polynomial/arithmetic.rs", "            Err( _ ) => { return - minus.clone(); },", "            Err( _ ) => { return minus.clone(); },"),
 ("C12-polydiv-loop-condition", "C12", "src/polynomial/arithmetic.rs", "        while !r.is_zero() && r.degree()? >= v.degree()? {", "        while !r.is_zero() && r.degree()? > v.degree()? {"),
 ("C13-mul-assign-reads-overwritten-real", "C13", "src/complex/mod.rs", "        self.imag *= rhs.real;\n        self.imag += a * rhs.imag;\n    }\n}\n\nimpl<T: Clone + Number> DivAssign for Complex<T> {", "        self.imag *= rhs.real;\n        self.imag += self.real.clone() * rhs.imag;\n        let _ = a;\n    }\n}\n\nimpl<T: Clone + Number> DivAssign for Complex<T> {"),
 ("C13-ordering-ignores-imag-sign", "C13", "src/complex/mod.rs", "            self.imag.partial_cmp( &other.imag )", "            if self.real == T::zero() { other.imag.partial_cmp( &other.imag ) } else { self.imag.partial_cmp( &other.imag ) }"),
 ("C14-pi-2-late-digit", "C14", "src/constant.rs", "pub const PI_2: f64 = 1.57079632679489661923132169164;", "pub const PI_2: f64 = 1.57079632679589661923132169164;"),
 ("C14-asinh-sign", "C14", "src/complex/hyperbolic.rs", "        ( ( z * z + 1.0 ).sqrt() + z ).ln()", "        if z.real < 0.0 && z.imag == 0.0 { ( ( z * z + 1.0 ).sqrt() - z ).ln() } else { ( ( z * z + 1.0 ).sqrt() + z ).ln() }"),
 ("C14-atanh-branch", "C14", "src/complex/hyperbolic.rs", "        ( ( z + 1.0 ).ln() - ( Cmplx::one() - z ).ln() ) * 0.5", "        ( ( ( z + 1.0 ) / ( Cmplx::one() - z ) ).ln() ) * 0.5"),
 ("C15-find-not-found-returns-size", "C15", "src/vector/functions.rs", "            None => self.size() - 1, // If not found return last index", "            None => self.size().saturating_sub( 2 ), // If not found return last index"),
 ("C15-sum-slice-excludes-end-for-long", "C15", "src/vector/functions.rs", "        for i in start..=end {\n            result += self.vec[i].clone();", "        for i in start..=( if end > start + 7 { end - 1 } else { end } ) {\n            result += self.vec[i].clone();"),
 ("C16-last-chunk-loses-remainder", "C16", "src/vector/vec_f64.rs", "                let end = if i == num_threads - 1 { self.size() } else { (i + 1) * chunk_size };", "                let end = (i + 1) * chunk_size;"),
 ("C16-join-order-by-completion", "C16", "src/vector/vec_f64.rs", "            for thread in threads {\n                result += thread.join().unwrap();", "            for thread in threads.into_iter().rev() {\n                result += thread.join().unwrap();"),
 ("C17-ok-on-fall-through", "C17", "src/newton.rs", "                return Ok( current );\n            }\n        }\n        Err( current ) \n    }\n}\n\nimpl Newton<Cmplx> {", "                return Ok( current );\n            }\n        }\n        if self.max_iter > 30 { return Ok( current ); }\n        Err( current ) \n    }\n}\n\nimpl Newton<Cmplx> {"),
 ("C17-err-carries-guess", "C17", "src/newton.rs", "            current -= dx;\n            if max_residual <= self.tol {\n                return Ok( current )\n            }\n        }\n        Err( current )\n    }\n\n    /// Solve the vector equation via Newton iteration using the exact Jacobian\n    #[inline] \n    pub fn solve_jacobian(&self, func: &dyn Fn(Vec64) -> Vec64, ", "            current -= dx;\n            if max_residual <= self.tol {\n                return Ok( current )\n            }\n        }\n        Err( self.guess.clone() )\n    }\n\n    /// Solve the vector equation via Newton iteration using the exact Jacobian\n    #[inline] \n    pub fn solve_jacobian(&self, func: &dyn Fn(Vec64) -> Vec64, "),
 ("C18-coordinate-not-restored", "C18", "src/matrix/functions.rs", "            let f_new = func( state.clone() ); \n            state[i] -= delta;\n            jac.set_col( i, ( f_new - f.clone() ) / delta );", "            let f_new = func( state.clone() ); \n            if i + 2 < n { state[i] -= delta; }\n            jac.set_col( i, ( f_new - f.clone() ) / delta );"),
 ("C19-interpolation-wrong-cell-near-node", "C19", "src/mesh1d.rs", "             || ( self.nodes[ node + 1 ] - x_pos ).abs() < 1.0e-7", "             || ( self.nodes[ node + 1 ] - x_pos ).abs() < 1.0e-2"),
 ("C19-mesh2d-trapezium-dx-dx", "C19", "src/mesh2d.rs", "                sum += 0.25 * dx * dy * ( self.vars[ i * self.ny + j ][ var ]", "                sum += 0.25 * dx * ( if i + 1 == j { dx } else { dy } ) * ( self.vars[ i * self.ny + j ][ var ]"),
 ("C19-cross-section-ynode-wrong-index", "C19", "src/mesh2d.rs", "            section.set_nodes_vars( nodex, self.get_nodes_vars( nodex, nodey ) );", "            section.set_nodes_vars( nodex, self.get_nodes_vars( nodex, nodey.min( self.nx - 1 ) ) );"),
 ("C20-vector-add-size-check-weakened", "C20", "src/vector/arithmetic.rs", "        if self.size() != plus.size() { panic!( \"Vector sizes do not agree (+).\" ); }", "        if self.size() > plus.size() { panic!( \"Vector sizes do not agree (+).\" ); }"),
 ("C20-sparse-insert-col-check-dropped", "C20", "src/sparse.rs", "        if self.cols <= col { panic!( \"Sparse matrix insert: col range error.\" ); }", "        if self.cols < col { panic!( \"Sparse matrix insert: col range error.\" ); }"),
 ("C20-mesh2d-set-nodes-y-check", "C20", "src/mesh2d.rs", "        if ( nodex > self.nx - 1 ) || ( nodey > self.ny - 1 ) { \n            panic!( \"Mesh2D error: set_nodes_vars range error.\" ); ", "        if ( nodex > self.nx - 1 ) || ( nodey > self.ny ) { \n            panic!( \"Mesh2D error: set_nodes_vars range error.\" ); "),
]
def sh(*a, **k): return subprocess.run(a, capture_output=True, text=True, **k)
os.makedirs("/verif/mutants", exist_ok=True)
kept = []
for name, prop, f, old, new in M:
    sh("git", "-C", WT, "checkout", "--", "src")
    p = f"{WT}/{f}"; s = open(p).read()
    if s.count(old) != 1:
        print(f"SKIP {name}: pattern found {s.count(old)} times"); continue
    open(p, "w").write(s.replace(old, new))
    r = sh("cargo", "test", "--offline", "--test", "tests", cwd=WT)
    line = [l for l in r.stdout.splitlines() if l.startswith("test result")]
    ok = bool(line) and "236 passed; 0 failed" in line[0]
    if ok:
        d = sh("git", "-C", WT, "diff", "--", "src").stdout
        open(f"/verif/mutants/{name}.diff", "w").write(d)
        kept.append(name)
        print(f"KEEP {name}")
    else:
        print(f"DROP {name}: {line[0] if line else 'does not compile'}")
sh("git", "-C", WT, "checkout", "--", "src")
print(len(kept), "kept")
