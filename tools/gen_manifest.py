#!/usr/bin/env python3
"""Regenerate /verif/MANIFEST.json from the table below (and validate it)."""
import json, os, sys
HERE = os.path.dirname(os.path.dirname(os.path.abspath(__file__)))

# id -> (built?, technique, level text, level note, design ref)
CHECKS = {
 "C01": (True, "proptest choice-stream PBT: exact rational model + double-double backward-error oracle, row-permutation metamorphic relation; libFuzzer on the same decoder (thorough)",
         "Generated-input search: hundreds of thousands of structured systems (P*L*U, planted zero/tiny pivots, scalings) per run over rat/f64/cmplx, each judged exactly (rationals) or by a normwise backward-error bound; held on everything explored, no proof of absence.",
         "Trusted: the harness's i128 rational arithmetic, its double-double residual, the reference GEPP growth factor; float systems limited to cond <= 1e10.", "5/C01"),
 "C02": (True, "proptest choice-stream PBT: exact fraction-elimination determinant/inverse oracle over rationals and Gaussian rationals, det(A^T)/det(AB) laws, bitwise operand snapshots; libFuzzer on the same decoder (thorough)",
         "Generated-input search over structured singular and nonsingular matrices of order 1..8 in three element types; determinant and inverse compared with exact linear algebra; held on everything explored.",
         "Trusted: i128 rational elimination oracle, Hadamard/condition-number based float bounds (constants calibrated with >100x head-room).", "5/C02"),
}
NOT_YET = "check not built yet in this revision of /verif (work in progress); the design for it is in DESIGN.md section 5"

def main():
    props = [json.loads(l) for l in open(os.path.join(HERE, "properties.jsonl"))]
    checks, na = [], []
    for p in props:
        pid = p["id"]
        ent = CHECKS.get(pid)
        if not ent or not ent[0]:
            na.append({"property_id": pid, "reason": NOT_YET})
            continue
        _, tech, text, note, ref = ent
        checks.append({
            "property_id": pid,
            "quick_cmd": f"./check {pid} quick",
            "thorough_cmd": f"./check {pid} thorough",
            "evidence_file": f"/verif/evidence/{pid}.json",
            "replay_cmd_template": f"./check {pid} --replay {{path}}",
            "engine": "proptest-stream",
            "level_claimed": {"category": "exploration", "text": text, "design_ref": ref},
            "level_note": note,
            "technique": tech,
        })
    m = {
        "version": 1,
        "setup_cmd": "./setup.sh",
        "hooks": {
            "guard": "ohsl_verif",
            "enable": "none needed: every observation point is a public return value, public field, panic or user closure; the harness builds /repo as an ordinary path dependency (no cfg flag is passed)",
            "baseline_off_cmd": "cd /repo && cargo test --workspace --no-fail-fast --offline",
            "source_commits": [],
            "add_only": True,
        },
        "engines": [
            {"name": "proptest-stream", "path": "harness/src/engine.rs", "serves_properties": [c["property_id"] for c in checks],
             "kind_free_text": "proptest 1.11 TestRunner over fixed-length Vec<u32> choice streams decoded by per-property generators; enumerated configuration prefixes with seeded tails; own stream shrinker for non-proptest failures"},
            {"name": "libfuzzer-stream", "path": "fuzz/fuzz_targets/stream.rs", "serves_properties": [c["property_id"] for c in checks],
             "kind_free_text": "cargo-fuzz/libFuzzer target reinterpreting input bytes as the same choice stream, oracle inside the target (thorough tier only)"},
        ],
        "checks": checks,
        "not_applicable": na,
        "notes": "All checks are `./check <ID> <tier>`; seeds via VERIF_SEED; known findings in known_findings.json; see DESIGN.md.",
    }
    out = os.path.join(HERE, "MANIFEST.json")
    json.dump(m, open(out, "w"), indent=1)
    try:
        import jsonschema
        jsonschema.validate(m, json.load(open("/root/.vp/MANIFEST.schema.json")))
        print("MANIFEST.json valid;", len(checks), "checks,", len(na), "not_applicable")
    except ImportError:
        print("jsonschema not available; written without validation")

if __name__ == "__main__":
    main()
