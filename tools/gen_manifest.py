#!/usr/bin/env python3
"""Regenerate /verif/MANIFEST.json from the table below (and validate it)."""
import json, os, sys
HERE = os.path.dirname(os.path.dirname(os.path.abspath(__file__)))

# id -> (built?, technique, level text, level note, design ref)
CHECKS = {
 "C01": (True, "proptest choice-stream PBT: exact rational model + double-double backward-error oracle, row-permutation metamorphic relation; libFuzzer on the same decoder (thorough)",
         "Generated-input search: hundreds of thousands of structured systems (P*L*U, planted zero/tiny pivots, scalings) per run over rat/f64/cmplx, each judged exactly (rationals) or by a normwise backward-error bound; held on everything explored, no proof of absence.",
         "Trusted: the harness's i128 rational arithmetic, its double-double residual, the reference GEPP growth factor; float systems limited to cond <= 1e10.", "5/C01"),
 "C02": (True, "proptest choice-stream PBT: exact fraction-elimination determinant/inverse oracle over rationals and Gaussian rationals, det(A^T)/det(AB) laws, bitwise operand snapshots; libFuzzer on the same decoder (thorough)",
         "Generated-input search over structured singular and nonsingular matrices of order 1..8 in three element types; determinant and inverse compared with exact linear algebra; held on everything explored.",
         "Trusted: i128 rational elimination oracle, Hadamard/condition-number based float bounds (constants calibrated with >100x head-room).", "5/C02"),
 "C03": (True, "exhaustive shape enumeration (729 triples) + model-based operation histories over exact rationals, proptest-driven and shrunk; libFuzzer on the same decoder (thorough)",
         "Every operator/method of Matrix is compared entry-by-entry and by shape with a Vec<Vec<Rat>> model for all 729 shape triples up to 8 in every run, plus random histories of up to 40 edits with a full comparison after every step; exhaustive over shapes, sampled over values and histories.",
         "Trusted: the naive reference model; identities polynomial in the entries so random rational points suffice with overwhelming probability.", "5/C03"),
 "C04": (True, "exhaustive (type,n,m1,m2) enumeration + generated value patterns; dense reference model, exact determinant, backward-error oracle, two-padding differential; proptest + libFuzzer(thorough)",
         "All 3 x 385 size/bandwidth configurations are enumerated in every run with dozens of generated value patterns each (mixed signs, zero/negative diagonals, tiny sub-diagonals, singular); every result compared with the dense twin exactly (rationals) or within rounding bounds (floats), and between two padding values bitwise.",
         "Trusted: dense reference elimination, i128 rational determinant oracle (numerical fallback when it overflows on float data), float bounds with >100x head-room.", "5/C04"),
 "C05": (True, "exhaustive (type,n) enumeration + generated diagonals; dense twin model, exact Thomas-recurrence oracle deciding refuse-vs-solve, exact determinant; proptest + libFuzzer(thorough)",
         "All 36 (type, n<=12) configurations in every run with thousands of generated diagonal contents (zero-rich menus, dominance, constants); the harness's exact recurrence decides whether solve must refuse (panic mentioning 'zero') or return the exact solution; everything else compared with the dense twin.",
         "Trusted: exact rational recurrence/determinant; float refusals asserted only when the f64 recurrence is provably exact (small dyadic intermediates); no accuracy claim for non-dominant float systems.", "5/C05"),
 "C06": (True, "exhaustive occupancy patterns of small grids x all triplet permutations + model-based insert/overwrite/scale/transpose histories against a BTreeMap model; CSC well-formedness invariant after every step; proptest + libFuzzer(thorough)",
         "All 640 occupancy patterns of the 3x3/2x3/3x2 grids under every triplet order (<= 5 entries), random shapes up to 8x8, raw-array construction and operation histories; after every construction/step every view (get, to_triplets, to_dense, col_index) and the CSC invariants are compared with the model.",
         "Trusted: the BTreeMap reference model; inputs respect the documented duplicate-free precondition.", "5/C06"),
 "C07": (True, "proptest choice-stream PBT over exact rationals: dense reference products, adjoint identity and scaling metamorphic relations; libFuzzer(thorough)",
         "Hundreds of thousands of random rectangular patterns (incl. empty rows/columns and the empty matrix) with rational entries and vectors; sparse products equal dense products exactly, transpose is the adjoint, scaling commutes.",
         "Trusted: naive dense products over i128 rationals (polynomial identity testing).", "5/C07"),
 "C08": (True, "proptest choice-stream PBT: generated systems of every kind x 5 solver entry points; on Ok the true residual is recomputed from a dense copy in double-double against tol + stated drift allowance (largest iterate measured by budget replay); libFuzzer(thorough)",
         "The implication 'Ok => solved to tolerance, finite, iterations <= budget, budget 0 leaves x untouched' is checked on every generated system for which a solver answers Ok (SPD, indefinite, nonsymmetric, singular, badly scaled, zero rhs, huge guesses).",
         "Trusted: double-double residual; drift allowance 200(n+2)*eps*(it+1)*(|A|_F*Xmax+|b|), constant calibrated with >100x head-room.", "5/C08"),
 "C09": (True, "proptest choice-stream PBT: generated well-posed systems (SPD / strictly diagonally dominant), differential against the harness's textbook CG/BiCG/BiCGSTAB for the iteration budget and against a refined dense solve for accuracy; degenerate-start cases on integer data; libFuzzer(thorough)",
         "Convergence within min(10n+50, 3x textbook count + 15) and agreement with the dense solution within the condition-number bound on every generated well-posed system; exact initial guesses and zero right-hand sides must be accepted with x finite.",
         "Trusted: the textbook reference solvers as well-posedness filter, reference dense solve with refinement, Frobenius condition estimate; tolerances below the double-precision floor are discarded.", "5/C09"),
 "C10": (True, "proptest choice-stream PBT: polynomials from prescribed roots (complex double-double expansion) and random coefficients; residual oracle in complex double-double, root matching, bit-exact driver replica as known-finding signature; libFuzzer(thorough)",
         "Hundreds of thousands (thorough: millions) of degree 0..12 polynomials per run over f64/Cmplx, both refinement settings, zero/repeated/clustered roots and vanishing coefficients; every returned value must be finite and a root to a stated backward-error tolerance, well-separated prescribed roots are matched one-to-one; two documented known findings (Laguerre non-convergence, unpolished deflation) are excluded by input-level signature.",
         "Trusted: complex double-double Horner evaluation; tolerances calibrated with margin; the replica only narrows what a known finding may excuse (its output must be bit-identical to the library's).", "5/C10"),
 "C11": (True, "proptest choice-stream PBT over exact data: coefficient-list reference model, evaluation homomorphism, linearity/product-rule identities; libFuzzer(thorough)",
         "Hundreds of thousands of polynomial pairs (lengths 0..9 incl. the empty polynomial) over three exact-data element types; every ring operation, eval and derivative form compared exactly with the model and with each other.",
         "Trusted: the coefficient-list model; exactness of small-integer float arithmetic.", "5/C11"),
 "C12": (True, "proptest choice-stream PBT: reconstruction oracle u = q v + r (exact over rationals, double-double with stated tolerance over floats), degree condition, error half on zero/empty divisors; libFuzzer(thorough)",
         "Hundreds of thousands of dividend/divisor pairs over rationals, integer-valued and general floats and Complex<f64>; success, reconstruction, degree of remainder and the Err contract are checked on each.",
         "Trusted: double-double reconstruction; tolerance 256 eps per coefficient relative to the absolute term sum.", "5/C12"),
 "C13": (True, "proptest choice-stream PBT: exact Gaussian-rational field oracle for Complex<Rat>, double-double componentwise oracle for Complex<f64>, bitwise differential between compound-assignment and binary forms, order-law checks; libFuzzer(thorough)",
         "Hundreds of thousands (thorough: millions) of operand triples; rational components checked exactly against independently coded field formulas and field laws, f64 components within 4/8 eps of the double-double value per component over magnitudes 1e-100..1e100, assignment forms bit-identical, ordering total/lexicographic/transitive.",
         "Trusted: i128 rationals, double-double products/quotients.", "5/C13"),
 "C14": (True, "proptest choice-stream PBT over structured argument regions (axes, both sides of every cut, branch points): differential against independently coded reference formulas, right-inverse round trips, principal-range predicates, identities, real-axis reduction; libFuzzer(thorough)",
         "Every public complex function is evaluated at hundreds of thousands (thorough: millions) of points concentrated on axes, cut neighbourhoods and branch points and judged by definition-level oracles with stated amplification-aware tolerances.",
         "Trusted: real std functions, the reference formulas (Smith division, Kahan sqrt, hypot/atan2 logarithm); tolerance multipliers calibrated with >=100x head-room; signed-zero behaviour exactly on cuts not asserted.", "5/C14"),
 "C15": (True, "proptest choice-stream PBT: Vec reference model for arithmetic/reductions (all index ranges for n <= 12), model-based edit histories, double-double norm oracle + norm-law metamorphic relations, sequence generators; libFuzzer(thorough)",
         "Hundreds of thousands of generated vectors and edit histories over rationals, f64, Complex<f64> and Complex<Rat>; exact comparison with a list model after every step, norms against double-double and their laws, linspace/powspace end points and monotonicity.",
         "Trusted: the Vec model, double-double sums; a few-ulp slack on floating norm laws.", "5/C15"),
 "C16": (True, "exhaustive (worker count x length) enumeration with the worker count set through the thread's CPU affinity and observed via num_cpus::get(); exact-integer differential oracle, reassociation bound, repeated-execution determinism under load with a moving CPU set; proptest for long random lengths",
         "All 16 x 201 (workers, length) pairs in every run for exactly summable data (bit-identical to the sequential and to an exact integer dot product), random data within the reassociation bound, and repeated calls on cancellation-prone data under CPU load and changing affinity (bit-identical).",
         "Trusted: sched_setaffinity/num_cpus behaviour of this kernel; the scheduler is not controlled: repetition samples interleavings but cannot exclude a schedule-dependent result.", "5/C16"),
 "C17": (True, "proptest choice-stream PBT over generated function families with roots known by construction (success half) and root-free / constant / non-differentiable / NaN functions (termination half); evaluation points logged inside the closures reconstruct the trajectory; repeat-call differential",
         "All six Newton entry points on hundreds of thousands of generated problems: accuracy of reported roots, evaluation-count bounds, Ok iff the stopping criterion is met at the last executed iteration, Err carries the last iterate, configuration untouched, repeated calls bit-identical.",
         "Trusted: analytic roots/derivatives of the generated families; basin sizes chosen so that quadratic convergence holds; the stopping criteria named in the property anchors.", "5/C17"),
 "C18": (True, "exhaustive (real/complex, m, n) enumeration + generated affine maps on dyadic data (exact equality oracle) and smooth nonlinear maps (truncation+rounding bound); closure-call log checked for order, count and coordinate restoration",
         "All 72 shapes (incl. m < n and m > n) in every run with thousands of generated maps: shape, exact entries for affine maps, O(delta) accuracy for smooth maps, and the exact sequence of evaluation points.",
         "Trusted: exactness of dyadic floating-point arithmetic; analytic derivatives of the generated maps.", "5/C18"),
 "C19": (True, "proptest choice-stream PBT: array model for every mesh access path under generated write histories; double-double cell sums and closed forms for quadrature; linear-interpolant oracle; output/read round trip through scratch files",
         "Tens of thousands of generated 1-D/2-D meshes on non-uniform dyadic grids with write histories through every path; stored values, cross-sections, matrix views, interpolation, trapezium rules and the file round trip are compared with the model.",
         "Trusted: the array model, double-double sums; interpolation points kept 1e-6 away from nodes as the property allows.", "5/C19"),
 "C20": (True, "exhaustive table enumeration: 66 table entries (about 90 checked entry points) x all size pairs up to 6 x all out-of-range variants, catch_unwind outcome + receiver snapshot; model-based clone-interleaving histories; by-reference/consuming differential; proptest for the random families",
         "Every checked entry point is called with every mismatched pair of sizes up to 6 and every out-of-range argument variant in every run (9702 configurations): it must panic and leave a &mut receiver untouched, and the conformable call must succeed; clones are mutated independently against two models; by-reference forms are compared with consuming forms and operand snapshots.",
         "Trusted: catch_unwind as the observation of rejection; the entry-point table (listed in the evidence classes) as the enumeration of 'every checked entry point'.", "5/C20"),
}
NOT_YET = "check not built yet in this revision of /verif (work in progress); the design for it is in DESIGN.md section 5"

def main():
    props = [json.loads(l) for l in open(os.path.join(HERE, "properties.jsonl"))]
    checks, na = [], []
    for p in props:
        pid = p["id"]
        ent = CHECKS.get(pid)
        if not ent or not ent[0]:
            na.append({"property_id": pid, "reason": NOT_YET})
            continue
        _, tech, text, note, ref = ent
        checks.append({
            "property_id": pid,
            "quick_cmd": f"./check {pid} quick",
            "thorough_cmd": f"./check {pid} thorough",
            "evidence_file": f"/verif/evidence/{pid}.json",
            "replay_cmd_template": f"./check {pid} --replay {{path}}",
            "engine": "proptest-stream",
            "level_claimed": {"category": "exploration", "text": text, "design_ref": ref},
            "level_note": note,
            "technique": tech,
        })
    m = {
        "version": 1,
        "setup_cmd": "./setup.sh",
        "hooks": {
            "guard": "ohsl_verif",
            "enable": "none needed: every observation point is a public return value, public field, panic or user closure; the harness builds /repo as an ordinary path dependency (no cfg flag is passed)",
            "baseline_off_cmd": "cd /repo && cargo test --workspace --no-fail-fast --offline",
            "source_commits": [],
            "add_only": True,
        },
        "engines": [
            {"name": "proptest-stream", "path": "harness/src/engine.rs", "serves_properties": [c["property_id"] for c in checks],
             "kind_free_text": "proptest 1.11 TestRunner over fixed-length Vec<u32> choice streams decoded by per-property generators; enumerated configuration prefixes with seeded tails; own stream shrinker for non-proptest failures"},
            {"name": "libfuzzer-stream", "path": "fuzz/fuzz_targets/stream.rs", "serves_properties": [c["property_id"] for c in checks],
             "kind_free_text": "cargo-fuzz/libFuzzer target reinterpreting input bytes as the same choice stream, oracle inside the target (thorough tier only)"},
        ],
        "checks": checks,
        "not_applicable": na,
        "notes": "All checks are `./check <ID> <tier>`; seeds via VERIF_SEED; known findings in known_findings.json; see DESIGN.md.",
    }
    out = os.path.join(HERE, "MANIFEST.json")
    json.dump(m, open(out, "w"), indent=1)
    try:
        import jsonschema
        jsonschema.validate(m, json.load(open("/root/.vp/MANIFEST.schema.json")))
        print("MANIFEST.json valid;", len(checks), "checks,", len(na), "not_applicable")
    except ImportError:
        print("jsonschema not available; written without validation")

if __name__ == "__main__":
    main()
