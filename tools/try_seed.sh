#!/bin/bash
# tools/try_seed.sh <property-id> <k> [check ids...]
#   1. confirms in the scratch worktree /tmp/wt_<id> that patch k applies, the 236 tests still pass with it,
#      the demonstration fails with it and passes without it;
#   2. applies the patch to /repo, runs the quick checks named (default: the property itself), reverts /repo.
set -u
ID="$1"; K="$2"; shift 2
CHECKS="${*:-$ID}"
WT="${WT_PREFIX:-/tmp/wt_}$ID"
P="$WT/_seed/patch$K.diff"
[ -f "$P" ] || { echo "no patch $P"; exit 2; }
cd "$WT" || exit 2
git checkout -q -- src
git apply --check "$P" || { echo "RESULT $ID/$K patch does not apply"; exit 2; }
git apply "$P"
suite=$(cargo test --offline --test tests 2>&1 | grep -E "^test result" | head -1)
demo_with=$(cargo test --offline --test seed_demo_$K 2>&1 | grep -E "^test result" | head -1)
git checkout -q -- src
demo_without=$(cargo test --offline --test seed_demo_$K 2>&1 | grep -E "^test result" | head -1)
echo "SUITE(with patch):   $suite"
echo "DEMO (with patch):   $demo_with"
echo "DEMO (without):      $demo_without"
cd /repo && git status --short | grep -q . && { echo "/repo not clean"; exit 2; }
git -C /repo apply "$P" || exit 2
for c in $CHECKS; do
  out=$(cd /verif && timeout 900 ./check $c quick 2>/dev/null | grep -E "^(VIOLATION|OK|KNOWN|INCONCLUSIVE|  engine)" | cut -c1-330)
  echo "--- check $c:"; echo "$out"
done
git -C /repo checkout -- .
git -C /repo status --short
