#!/bin/bash
# tools/apply_seed.sh <seeded-dir-or-diff> [check ids...] : apply to /repo, run quick checks, revert
set -u
D="$(realpath "$1")"; shift
P="$D"; [ -d "$D" ] && P="$D/patch.diff"
IDS="${*:-$(basename "$D" | cut -c1-3)}"
cd /repo && git status --short | grep -q . && { echo "/repo not clean"; exit 2; }
git -C /repo apply "$P" || exit 2
for c in $IDS; do
  (cd /verif && timeout 900 ./check $c quick 2>/dev/null | grep -E "^(VIOLATION|OK|INCONCLUSIVE|  engine)" | cut -c1-260)
done
git -C /repo checkout -- .
