#!/usr/bin/env python3
"""For every fixed finding: revert its fix commit in /repo (uncommitted), replay its regress stream(s), expect a VIOLATION,
and restore /repo.  Guards against generator changes silently turning a regression stream into a different case."""
import json, subprocess, sys
kf = json.load(open("/verif/known_findings.json"))
assert subprocess.run(["git", "-C", "/repo", "status", "--short"], capture_output=True, text=True).stdout.strip() == ""
bad = 0
for f in kf["findings"]:
    if f["status"] != "fixed":
        continue
    files = [f.get("regress")] + f.get("regress_other", [])
    files = [x for x in files if x]
    r = subprocess.run(["git", "-C", "/repo", "revert", "--no-commit"] + f.get("revert_with", []) + [f["commit"]], capture_output=True, text=True)
    if r.returncode != 0:
        print("CANNOT REVERT", f["key"], f["commit"], r.stderr.strip()[:200])
        subprocess.run(["git", "-C", "/repo", "revert", "--abort"], capture_output=True)
        subprocess.run(["git", "-C", "/repo", "reset", "-q", "--hard", "HEAD"])
        bad += 1
        continue
    try:
        for rf in files:
            pid = rf.split("/")[1]
            p = subprocess.run(["/verif/check", pid, "--replay", "/verif/" + rf], capture_output=True, text=True, cwd="/verif")
            ok = p.returncode == 1 and "VIOLATION" in p.stdout
            print(("ok      " if ok else "STALE   ") + f["key"], rf, "" if ok else p.stdout.strip()[:160])
            bad += 0 if ok else 1
    finally:
        subprocess.run(["git", "-C", "/repo", "reset", "-q", "--hard", "HEAD"])
print("stale or failing:", bad)
sys.exit(1 if bad else 0)
