#!/bin/bash
# Build the harness offline from files on disk only (run once after a fresh restore).
set -e
cd "$(dirname "${BASH_SOURCE[0]}")"
export CARGO_NET_OFFLINE=true
mkdir -p evidence replays harness/target
(cd harness && cargo build --release --offline 2>&1 | tail -n 3)
echo "setup done"
