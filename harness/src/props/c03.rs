//! C03 — dense matrix algebra and editing follow their definitions for every
//! shape and every history of edits.

use super::util::*;
use crate::dd::Dd;
use crate::engine::{Case, Outcome, Prop, Tier};
use crate::gen::{self, fmt_mat};
use crate::rat::Rat;
use crate::refla::{self, M};
use crate::stream::{raw_for, Src};
use ohsl::{Matrix, Vector};

pub struct C03;

type R = Rat;

fn model(src: &mut Src, r: usize, c: usize) -> M<R> {
    (0..r).map(|_| (0..c).map(|_| gen::rat(src)).collect()).collect()
}
fn rvec(src: &mut Src, n: usize) -> Vec<R> {
    (0..n).map(|_| gen::rat(src)).collect()
}
fn mk(a: &M<R>, r: usize, c: usize) -> Matrix<R> {
    to_matrix(a, r, c)
}

/// full comparison of a matrix with the model: shape, numel, every entry via the
/// index operator, every row and column via the getters
fn cmp(m: &Matrix<R>, a: &M<R>, r: usize, c: usize, what: &str) -> Result<(), String> {
    if m.rows() != r || m.cols() != c {
        return Err(format!("{}: shape {}x{} expected {}x{}", what, m.rows(), m.cols(), r, c));
    }
    if m.numel() != r * c {
        return Err(format!("{}: numel {} != {}", what, m.numel(), r * c));
    }
    for i in 0..r {
        for j in 0..c {
            if m[(i, j)] != a[i][j] {
                return Err(format!("{}: entry ({},{}) = {:?}, expected {:?}; expected matrix {}", what, i, j, m[(i, j)], a[i][j], fmt_mat(a)));
            }
        }
    }
    Ok(())
}
fn cmp_getters(m: &Matrix<R>, a: &M<R>, r: usize, c: usize, what: &str) -> Result<(), String> {
    for i in 0..r {
        let row = m.get_row(i);
        if row.vec != a[i] {
            return Err(format!("{}: get_row({}) = {:?}, expected {:?}", what, i, row.vec, a[i]));
        }
    }
    for j in 0..c {
        let col = m.get_col(j);
        let exp: Vec<R> = (0..r).map(|i| a[i][j]).collect();
        if col.vec != exp {
            return Err(format!("{}: get_col({}) = {:?}, expected {:?}", what, j, col.vec, exp));
        }
    }
    Ok(())
}
fn cmpv(v: &Vector<R>, e: &[R], what: &str) -> Result<(), String> {
    if v.vec != e {
        return Err(format!("{}: {:?}, expected {:?}", what, v.vec, e));
    }
    Ok(())
}
fn zip2(a: &M<R>, b: &M<R>, f: impl Fn(R, R) -> R) -> M<R> {
    a.iter().zip(b).map(|(r, s)| r.iter().zip(s).map(|(x, y)| f(*x, *y)).collect()).collect()
}
fn map1(a: &M<R>, f: impl Fn(R) -> R) -> M<R> {
    a.iter().map(|r| r.iter().map(|x| f(*x)).collect()).collect()
}
fn resized(a: &M<R>, r: usize, c: usize, r2: usize, c2: usize) -> M<R> {
    (0..r2).map(|i| (0..c2).map(|j| if i < r && j < c { a[i][j] } else { R::int(0) }).collect()).collect()
}
fn fill_band_model(a: &mut M<R>, r: usize, c: usize, off: i64, v: R) {
    for i in 0..r {
        let j = i as i64 + off;
        if j >= 0 && (j as usize) < c {
            a[i][j as usize] = v;
        }
    }
}

fn algebra(case: &mut Case) -> Result<(), String> {
    let r = case.src.usize_below(9);
    let k = case.src.usize_below(9);
    let c = case.src.usize_below(9);
    let z = R::int(0);
    let a = model(&mut case.src, r, k);
    let b = model(&mut case.src, k, c);
    let d = model(&mut case.src, r, k);
    let v = rvec(&mut case.src, k);
    let s = gen::rat(&mut case.src);
    let snz = gen::rat_nz(&mut case.src);
    case.class(format!("algebra r{}c", if r == c { "==" } else if r < c { "<" } else { ">" }));
    if r == 0 || k == 0 || c == 0 {
        case.class("algebra empty-dimension");
    }
    if r != c || r == 0 || k == 0 || c == 0 {
        case.mark_nontrivial();
    }
    case.describe(|| format!("algebra {}x{} * {}x{}: A={} B={} v={:?} s={:?}", r, k, k, c, fmt_mat(&a), fmt_mat(&b), v, s));
    let (ma, mb, md) = (mk(&a, r, k), mk(&b, k, c), mk(&d, r, k));
    // --- products
    let ab = refla::matmul(&a, &b, z, c);
    cmp(&(&ma * &mb), &ab, r, c, "&A * &B")?;
    cmp(&(ma.clone() * mb.clone()), &ab, r, c, "A * B (consuming)")?;
    let av = refla::matvec(&a, &v, z);
    let vv = to_vector(&v);
    cmpv(&ma.multiply(&vv), &av, "A.multiply(v)")?;
    cmpv(&(&ma * &vv), &av, "&A * &v")?;
    cmpv(&(ma.clone() * vv.clone()), &av, "A * v (consuming)")?;
    if vv.vec != v {
        return Err("multiply modified its vector operand".into());
    }
    // --- element-wise
    cmp(&(&ma + &md), &zip2(&a, &d, |x, y| x + y), r, k, "&A + &D")?;
    cmp(&(ma.clone() + md.clone()), &zip2(&a, &d, |x, y| x + y), r, k, "A + D")?;
    cmp(&(&ma - &md), &zip2(&a, &d, |x, y| x - y), r, k, "&A - &D")?;
    cmp(&(ma.clone() - md.clone()), &zip2(&a, &d, |x, y| x - y), r, k, "A - D")?;
    cmp(&(-&ma), &map1(&a, |x| -x), r, k, "-&A")?;
    cmp(&(-ma.clone()), &map1(&a, |x| -x), r, k, "-A")?;
    cmp(&(&ma * s), &map1(&a, |x| x * s), r, k, "&A * s")?;
    cmp(&(ma.clone() * s), &map1(&a, |x| x * s), r, k, "A * s")?;
    cmp(&(&ma / snz), &map1(&a, |x| x / snz), r, k, "&A / s")?;
    cmp(&(ma.clone() / snz), &map1(&a, |x| x / snz), r, k, "A / s")?;
    let mut t = ma.clone();
    t += &md;
    cmp(&t, &zip2(&a, &d, |x, y| x + y), r, k, "A += &D")?;
    let mut t = ma.clone();
    t += md.clone();
    cmp(&t, &zip2(&a, &d, |x, y| x + y), r, k, "A += D")?;
    let mut t = ma.clone();
    t -= &md;
    cmp(&t, &zip2(&a, &d, |x, y| x - y), r, k, "A -= &D")?;
    let mut t = ma.clone();
    t -= md.clone();
    cmp(&t, &zip2(&a, &d, |x, y| x - y), r, k, "A -= D")?;
    let mut t = ma.clone();
    t *= s;
    cmp(&t, &map1(&a, |x| x * s), r, k, "A *= s")?;
    let mut t = ma.clone();
    t /= snz;
    cmp(&t, &map1(&a, |x| x / snz), r, k, "A /= s")?;
    let mut t = ma.clone();
    t += s;
    cmp(&t, &map1(&a, |x| x + s), r, k, "A += s")?;
    let mut t = ma.clone();
    t -= s;
    cmp(&t, &map1(&a, |x| x - s), r, k, "A -= s")?;
    // the same object on both sides
    cmp(&(&ma + &ma), &zip2(&a, &a, |x, y| x + y), r, k, "&A + &A")?;
    cmp(&(&ma - &ma), &zip2(&a, &a, |x, y| x - y), r, k, "&A - &A")?;
    if r == k {
        cmp(&(&ma * &ma), &refla::matmul(&a, &a, z, k), r, k, "&A * &A")?;
    }
    // operands of the by-reference forms are untouched
    cmp(&ma, &a, r, k, "operand A after by-reference operators")?;
    cmp(&md, &d, r, k, "operand D after by-reference operators")?;
    cmp(&mb, &b, k, c, "operand B after by-reference operators")?;
    // --- transpose
    let at = refla::transpose(&a, k);
    cmp(&ma.transpose(), &at, k, r, "A.transpose()")?;
    let mut t = ma.clone();
    t.transpose_in_place();
    cmp(&t, &at, k, r, "A.transpose_in_place()")?;
    cmp_getters(&t, &at, k, r, "getters after transpose_in_place")?;
    t.transpose_in_place();
    cmp(&t, &a, r, k, "transpose twice")?;
    // --- identity
    let e = Matrix::<R>::eye(r);
    cmp(&e, &identity::<R>(r), r, r, "eye(r)")?;
    // --- getters and setters
    cmp_getters(&ma, &a, r, k, "A")?;
    if r > 0 {
        let i = case.src.usize_below(r);
        let nv = rvec(&mut case.src, k);
        let mut t = ma.clone();
        t.set_row(i, to_vector(&nv));
        let mut e = a.clone();
        e[i] = nv;
        cmp(&t, &e, r, k, &format!("set_row({})", i))?;
        let i2 = case.src.usize_below(r);
        t.swap_rows(i, i2);
        e.swap(i, i2);
        cmp(&t, &e, r, k, &format!("swap_rows({},{})", i, i2))?;
        t.delete_row(i2);
        e.remove(i2);
        cmp(&t, &e, r - 1, k, &format!("delete_row({})", i2))?;
        cmp_getters(&t, &e, r - 1, k, "getters after delete_row")?;
        let mut t = ma.clone();
        t.fill_row(i, s);
        let mut e = a.clone();
        e[i] = vec![s; k];
        cmp(&t, &e, r, k, &format!("fill_row({})", i))?;
    }
    for j in 0..k {
        // every column index, so that wide matrices exercise indices >= rows
        let nv = rvec(&mut case.src, r);
        let mut t = ma.clone();
        t.set_col(j, to_vector(&nv));
        let mut e = a.clone();
        for i in 0..r {
            e[i][j] = nv[i];
        }
        cmp(&t, &e, r, k, &format!("set_col({})", j))?;
        let mut t = ma.clone();
        t.fill_col(j, s);
        let mut e = a.clone();
        for i in 0..r {
            e[i][j] = s;
        }
        cmp(&t, &e, r, k, &format!("fill_col({})", j))?;
    }
    // --- fills
    let mut t = ma.clone();
    t.fill(s);
    cmp(&t, &vec![vec![s; k]; r], r, k, "fill")?;
    let mut t = ma.clone();
    t.fill_diag(s);
    let mut e = a.clone();
    fill_band_model(&mut e, r, k, 0, s);
    cmp(&t, &e, r, k, "fill_diag")?;
    for off in -9i64..=9 {
        let mut t = ma.clone();
        t.fill_band(off as isize, s);
        let mut e = a.clone();
        fill_band_model(&mut e, r, k, off, s);
        cmp(&t, &e, r, k, &format!("fill_band({})", off))?;
    }
    // offsets far outside the matrix (the argument is an isize): nothing may change - also when the offset is a small
    // number modulo 2^32 or 2^16
    for base in [1i64 << 16, 1 << 31, 1 << 32, 1 << 33, 1 << 48, 1 << 62] {
        for d in [-2i64, -1, 0, 1, 2] {
            for sign in [1i64, -1] {
                let off = sign * base + d;
                let mut t = ma.clone();
                t.fill_band(off as isize, s);
                cmp(&t, &a, r, k, &format!("fill_band({}) (band outside the matrix)", off))?;
            }
        }
    }
    let (lo, di, up) = (gen::rat(&mut case.src), gen::rat(&mut case.src), gen::rat(&mut case.src));
    let mut t = ma.clone();
    t.fill_tridiag(lo, di, up);
    let mut e = a.clone();
    fill_band_model(&mut e, r, k, -1, lo);
    fill_band_model(&mut e, r, k, 0, di);
    fill_band_model(&mut e, r, k, 1, up);
    cmp(&t, &e, r, k, "fill_tridiag")?;
    // --- resize: every target shape (thorough) / a stride of them (quick)
    let stride = case.tier.pick(7, 1);
    let start = case.src.usize_below(stride);
    for idx in (start..81).step_by(stride) {
        let (r2, c2) = (idx / 9, idx % 9);
        let mut t = ma.clone();
        t.resize(r2, c2);
        let e = resized(&a, r, k, r2, c2);
        cmp(&t, &e, r2, c2, &format!("resize({},{})", r2, c2))?;
        cmp_getters(&t, &e, r2, c2, "getters after resize")?;
    }
    let mut t = ma.clone();
    t.clear();
    cmp(&t, &Vec::new(), 0, 0, "clear")?;
    Ok(())
}

const NOPS: u32 = 24;

fn history(case: &mut Case) -> Result<(), String> {
    let z = R::int(0);
    let (mut r, mut c) = (case.src.usize_below(7), case.src.usize_below(7));
    let mut a = model(&mut case.src, r, c);
    let mut m = mk(&a, r, c);
    let steps = case.src.urange(1, 40);
    let mut log: Vec<String> = vec![format!("start {}x{} {}", r, c, fmt_mat(&a))];
    let mut shape_changed = false;
    let mut rowcol_after_shape = false;
    for _ in 0..steps {
        let op = case.src.below(NOPS);
        let desc;
        match op {
            0 => {
                if r == 0 || c == 0 {
                    continue;
                }
                let (i, j, v) = (case.src.usize_below(r), case.src.usize_below(c), gen::rat(&mut case.src));
                m[(i, j)] = v;
                a[i][j] = v;
                desc = format!("[({},{})]={:?}", i, j, v);
            }
            1 => {
                if r == 0 {
                    continue;
                }
                let i = case.src.usize_below(r);
                let nv = rvec(&mut case.src, c);
                m.set_row(i, to_vector(&nv));
                desc = format!("set_row({},{:?})", i, nv);
                a[i] = nv;
                rowcol_after_shape |= shape_changed;
            }
            2 => {
                if c == 0 {
                    continue;
                }
                let j = case.src.usize_below(c);
                let nv = rvec(&mut case.src, r);
                m.set_col(j, to_vector(&nv));
                for i in 0..r {
                    a[i][j] = nv[i];
                }
                desc = format!("set_col({},{:?})", j, nv);
                rowcol_after_shape |= shape_changed;
            }
            3 => {
                if r == 0 {
                    continue;
                }
                let (i, j) = (case.src.usize_below(r), case.src.usize_below(r));
                m.swap_rows(i, j);
                a.swap(i, j);
                desc = format!("swap_rows({},{})", i, j);
                rowcol_after_shape |= shape_changed;
            }
            4 => {
                if r == 0 {
                    continue;
                }
                let i = case.src.usize_below(r);
                m.delete_row(i);
                a.remove(i);
                r -= 1;
                desc = format!("delete_row({})", i);
                shape_changed = true;
            }
            5 => {
                let v = gen::rat(&mut case.src);
                m.fill(v);
                a = vec![vec![v; c]; r];
                desc = format!("fill({:?})", v);
            }
            6 => {
                let v = gen::rat(&mut case.src);
                m.fill_diag(v);
                fill_band_model(&mut a, r, c, 0, v);
                desc = format!("fill_diag({:?})", v);
            }
            7 => {
                let off = case.src.range(-7, 7);
                let v = gen::rat(&mut case.src);
                m.fill_band(off as isize, v);
                fill_band_model(&mut a, r, c, off, v);
                desc = format!("fill_band({},{:?})", off, v);
            }
            8 => {
                let (lo, di, up) = (gen::rat(&mut case.src), gen::rat(&mut case.src), gen::rat(&mut case.src));
                m.fill_tridiag(lo, di, up);
                fill_band_model(&mut a, r, c, -1, lo);
                fill_band_model(&mut a, r, c, 0, di);
                fill_band_model(&mut a, r, c, 1, up);
                desc = format!("fill_tridiag({:?},{:?},{:?})", lo, di, up);
            }
            9 => {
                if r == 0 {
                    continue;
                }
                let i = case.src.usize_below(r);
                let v = gen::rat(&mut case.src);
                m.fill_row(i, v);
                a[i] = vec![v; c];
                desc = format!("fill_row({},{:?})", i, v);
                rowcol_after_shape |= shape_changed;
            }
            10 => {
                if c == 0 {
                    continue;
                }
                let j = case.src.usize_below(c);
                let v = gen::rat(&mut case.src);
                m.fill_col(j, v);
                for i in 0..r {
                    a[i][j] = v;
                }
                desc = format!("fill_col({},{:?})", j, v);
                rowcol_after_shape |= shape_changed;
            }
            11 => {
                let (r2, c2) = (case.src.usize_below(8), case.src.usize_below(8));
                m.resize(r2, c2);
                a = resized(&a, r, c, r2, c2);
                desc = format!("resize({},{})", r2, c2);
                shape_changed |= (r2, c2) != (r, c);
                r = r2;
                c = c2;
            }
            12 => {
                m.transpose_in_place();
                a = refla::transpose(&a, c);
                std::mem::swap(&mut r, &mut c);
                shape_changed |= r != c;
                desc = "transpose_in_place".into();
            }
            13 => {
                m = m.transpose();
                a = refla::transpose(&a, c);
                std::mem::swap(&mut r, &mut c);
                shape_changed |= r != c;
                desc = "m = m.transpose()".into();
            }
            14 | 15 => {
                let d = model(&mut case.src, r, c);
                let md = mk(&d, r, c);
                if op == 14 {
                    if case.src.coin() {
                        m += &md;
                    } else {
                        m += md;
                    }
                    a = zip2(&a, &d, |x, y| x + y);
                    desc = format!("+= {}", fmt_mat(&d));
                } else {
                    if case.src.coin() {
                        m -= &md;
                    } else {
                        m -= md;
                    }
                    a = zip2(&a, &d, |x, y| x - y);
                    desc = format!("-= {}", fmt_mat(&d));
                }
            }
            16 => {
                let s = gen::rat(&mut case.src);
                m *= s;
                a = map1(&a, |x| x * s);
                desc = format!("*= {:?}", s);
            }
            17 => {
                let s = gen::rat_nz(&mut case.src);
                m /= s;
                a = map1(&a, |x| x / s);
                desc = format!("/= {:?}", s);
            }
            18 => {
                let s = gen::rat(&mut case.src);
                m += s;
                a = map1(&a, |x| x + s);
                desc = format!("+= scalar {:?}", s);
            }
            19 => {
                let s = gen::rat(&mut case.src);
                m -= s;
                a = map1(&a, |x| x - s);
                desc = format!("-= scalar {:?}", s);
            }
            20 => {
                m.clear();
                a = Vec::new();
                shape_changed |= (r, c) != (0, 0);
                r = 0;
                c = 0;
                desc = "clear".into();
            }
            21 => {
                let n = case.src.usize_below(7);
                m = Matrix::<R>::eye(n);
                a = identity::<R>(n);
                shape_changed |= (r, c) != (n, n);
                r = n;
                c = n;
                desc = format!("m = eye({})", n);
            }
            22 => {
                let cl = m.clone();
                m.fill(z); // the clone must be independent
                m = cl;
                desc = "m = m.clone() (after scribbling on the original)".into();
            }
            _ => {
                if r == 0 || c == 0 {
                    continue;
                }
                let (i1, j1, i2, j2) = (case.src.usize_below(r), case.src.usize_below(c), case.src.usize_below(r), case.src.usize_below(c));
                m.swap_elem(i1, j1, i2, j2);
                let t = a[i1][j1];
                a[i1][j1] = a[i2][j2];
                a[i2][j2] = t;
                desc = format!("swap_elem({},{},{},{})", i1, j1, i2, j2);
            }
        }
        log.push(desc);
        let what = format!("after history [{}]", log.join("; "));
        cmp(&m, &a, r, c, &what)?;
        cmp_getters(&m, &a, r, c, &what)?;
        // the matrix EQUALS the model put through the same sequence - also through the == operator
        let fresh = mk(&a, r, c);
        if !(m == fresh) || !(fresh == m) || m != fresh {
            return Err(format!("{}: same shape and entries as a freshly built matrix but the == operator says they differ", what));
        }
    }
    case.class(format!("history steps={}", (log.len() - 1).min(40) / 10 * 10));
    if shape_changed {
        case.class("history shape-changed");
    }
    if log.len() > 5 && rowcol_after_shape {
        case.mark_nontrivial();
        case.class("history nontrivial");
    }
    case.describe(|| format!("history: {}", log.join("; ")));
    Ok(())
}

fn norms(case: &mut Case) -> Result<(), String> {
    let r = case.src.usize_below(9);
    let c = case.src.usize_below(9);
    let a: Vec<Vec<f64>> = (0..r).map(|_| (0..c).map(|_| case.src.small_int(40) as f64).collect()).collect();
    let mut m = Matrix::<f64>::new(r, c, 0.0);
    for i in 0..r {
        for j in 0..c {
            m[(i, j)] = a[i][j];
        }
    }
    case.class("norms");
    if r != c && r > 0 && c > 0 {
        case.mark_nontrivial();
    }
    case.describe(|| format!("norms of {}x{} {:?}", r, c, a));
    let n1 = (0..c).map(|j| (0..r).map(|i| a[i][j].abs()).sum::<f64>()).fold(0.0, f64::max);
    let ni = a.iter().map(|row| row.iter().map(|x| x.abs()).sum::<f64>()).fold(0.0, f64::max);
    let nm = a.iter().flatten().map(|x| x.abs()).fold(0.0, f64::max);
    if m.norm_1() != n1 {
        return Err(format!("norm_1 = {}, expected {}", m.norm_1(), n1));
    }
    if m.norm_inf() != ni {
        return Err(format!("norm_inf = {}, expected {}", m.norm_inf(), ni));
    }
    if m.norm_max() != nm {
        return Err(format!("norm_max = {}, expected {}", m.norm_max(), nm));
    }
    let p = if case.src.coin() { case.src.urange(1, 8) as f64 } else { case.src.f64_in(1.0, 8.0) };
    let mut sum = Dd::ZERO;
    for x in a.iter().flatten() {
        sum = sum + Dd::from(x.abs().powf(p));
    }
    let refp = sum.to_f64().powf(1.0 / p);
    let tol = 4.0 * EPS * (r * c + 4) as f64 * refp;
    let got = m.norm_p(p);
    if !((got - refp).abs() <= tol) {
        return Err(format!("norm_p({}) = {}, expected {} (tol {:.2e})", p, got, refp, tol));
    }
    // large exponents on entries of modulus <= 1 (no power overflows): several entries of maximal modulus make the
    // p-norm differ from the max norm by the factor count^(1/p)
    {
        let pl = [16.0, 64.0, 256.0, 1024.0, 4096.0, 1e5][case.src.usize_below(6)];
        let nmx = if nm > 0.0 { nm } else { 1.0 };
        let mut mn = Matrix::<f64>::new(r, c, 0.0);
        let mut sum = Dd::ZERO;
        for i in 0..r {
            for j in 0..c {
                let v = a[i][j] / nmx;
                mn[(i, j)] = v;
                sum = sum + Dd::from(v.abs().powf(pl));
            }
        }
        let refl = sum.to_f64().powf(1.0 / pl);
        let got = mn.norm_p(pl);
        if !((got - refl).abs() <= 4.0 * EPS * (r * c + 4) as f64 * refl.max(1e-300)) {
            return Err(format!("norm_p({}) of a matrix with entries of modulus <= 1 = {}, expected {}", pl, got, refl));
        }
    }
    let mut s2 = Dd::ZERO;
    for x in a.iter().flatten() {
        s2 = s2 + Dd::prod(*x, *x);
    }
    let reff = s2.to_f64().sqrt();
    let got = m.norm_frob();
    if !((got - reff).abs() <= 4.0 * EPS * (r * c + 4) as f64 * reff) {
        return Err(format!("norm_frob = {}, expected {}", got, reff));
    }
    // exactly representable quotients: (M * s) / s gives M back, in every form
    {
        let d = [3.0, 7.0, 49.0, 10.0, 6.0][case.src.usize_below(5)];
        let ms = &m * d;
        let back = &ms / d;
        let mut back2 = ms.clone();
        back2 /= d;
        for i in 0..r {
            for j in 0..c {
                if back[(i, j)] != a[i][j] || back2[(i, j)] != a[i][j] || (ms.clone() / d)[(i, j)] != a[i][j] {
                    return Err(format!("(M * {}) / {} at ({},{}) = {:e} / {:e}, expected {:e}", d, d, i, j, back[(i, j)], back2[(i, j)], a[i][j]));
                }
            }
        }
    }
    // f64 * Matrix
    let s = case.src.small_int(9) as f64;
    let sm = s * m.clone();
    if sm.rows() != r || sm.cols() != c {
        return Err("f64 * Matrix changed the shape".into());
    }
    for i in 0..r {
        for j in 0..c {
            if sm[(i, j)] != s * a[i][j] {
                return Err(format!("(s * M)[({},{})] = {} expected {}", i, j, sm[(i, j)], s * a[i][j]));
            }
        }
    }
    Ok(())
}

fn fval(src: &mut Src) -> f64 {
    match src.below(5) {
        0 => 0.0,
        1 => src.small_int(9) as f64 / 10.0, // non-dyadic
        2 => gen::f64_log(src, -8.0, 8.0),
        3 => gen::f64_log(src, -1.0, 1.0),
        _ => src.small_int(40) as f64,
    }
}
fn same_bits(m: &Matrix<f64>, a: &[Vec<f64>], r: usize, c: usize, what: &str) -> Result<(), String> {
    if m.rows() != r || m.cols() != c || m.numel() != r * c {
        return Err(format!("{}: shape {}x{} expected {}x{}", what, m.rows(), m.cols(), r, c));
    }
    for i in 0..r {
        for j in 0..c {
            if m[(i, j)].to_bits() != a[i][j].to_bits() {
                return Err(format!("{}: entry ({},{}) = {:e}, expected {:e} (data movement must not change a value)", what, i, j, m[(i, j)], a[i][j]));
            }
        }
    }
    Ok(())
}

/// data-movement history on f64 matrices with non-dyadic, mixed-magnitude values (every operation here only
/// moves or overwrites values, so the comparison is bitwise), followed by the norms of the result
fn history_f64(case: &mut Case) -> Result<(), String> {
    let (mut r, mut c) = (case.src.usize_below(7), case.src.usize_below(7));
    let mut a: Vec<Vec<f64>> = (0..r).map(|_| (0..c).map(|_| fval(&mut case.src)).collect()).collect();
    let mut m = Matrix::<f64>::new(r, c, 0.0);
    for i in 0..r {
        for j in 0..c {
            m[(i, j)] = a[i][j];
        }
    }
    let steps = case.src.urange(1, 24);
    let mut log: Vec<String> = vec![format!("start {}x{} {:?}", r, c, a)];
    for _ in 0..steps {
        let desc;
        match case.src.below(12) {
            0 => {
                if r == 0 || c == 0 { continue; }
                let (i, j, v) = (case.src.usize_below(r), case.src.usize_below(c), fval(&mut case.src));
                m[(i, j)] = v;
                a[i][j] = v;
                desc = format!("[({},{})]={:e}", i, j, v);
            }
            1 => {
                if r == 0 { continue; }
                let i = case.src.usize_below(r);
                let nv: Vec<f64> = (0..c).map(|_| fval(&mut case.src)).collect();
                m.set_row(i, Vector::create(nv.clone()));
                desc = format!("set_row({},{:?})", i, nv);
                a[i] = nv;
            }
            2 => {
                if c == 0 { continue; }
                let j = case.src.usize_below(c);
                let nv: Vec<f64> = (0..r).map(|_| fval(&mut case.src)).collect();
                m.set_col(j, Vector::create(nv.clone()));
                for i in 0..r { a[i][j] = nv[i]; }
                desc = format!("set_col({},{:?})", j, nv);
            }
            3 | 4 => {
                if r == 0 { continue; }
                let (i, j) = (case.src.usize_below(r), case.src.usize_below(r));
                m.swap_rows(i, j);
                a.swap(i, j);
                desc = format!("swap_rows({},{})", i, j);
            }
            5 => {
                if r == 0 || c == 0 { continue; }
                let (i1, j1, i2, j2) = (case.src.usize_below(r), case.src.usize_below(c), case.src.usize_below(r), case.src.usize_below(c));
                m.swap_elem(i1, j1, i2, j2);
                let t = a[i1][j1];
                a[i1][j1] = a[i2][j2];
                a[i2][j2] = t;
                desc = format!("swap_elem({},{},{},{})", i1, j1, i2, j2);
            }
            6 | 7 => {
                if r == 0 { continue; }
                // the last row is the interesting one for an in-place implementation
                let i = if case.src.coin() { r - 1 } else { case.src.usize_below(r) };
                m.delete_row(i);
                a.remove(i);
                r -= 1;
                desc = format!("delete_row({})", i);
            }
            8 => {
                let (r2, c2) = (case.src.usize_below(8), case.src.usize_below(8));
                m.resize(r2, c2);
                a = (0..r2).map(|i| (0..c2).map(|j| if i < r && j < c { a[i][j] } else { 0.0 }).collect()).collect();
                r = r2;
                c = c2;
                desc = format!("resize({},{})", r2, c2);
            }
            9 => {
                if case.src.coin() { m.transpose_in_place(); } else { m = m.transpose(); }
                a = (0..c).map(|j| (0..r).map(|i| a[i][j]).collect()).collect();
                std::mem::swap(&mut r, &mut c);
                desc = "transpose".into();
            }
            10 => {
                let v = fval(&mut case.src);
                let off = case.src.range(-3, 3);
                m.fill_band(off as isize, v);
                for i in 0..r {
                    let j = i as i64 + off;
                    if j >= 0 && (j as usize) < c { a[i][j as usize] = v; }
                }
                desc = format!("fill_band({},{:e})", off, v);
            }
            _ => {
                let cl = m.clone();
                m.fill(-1.0);
                m = cl;
                desc = "m = m.clone()".into();
            }
        }
        log.push(desc);
        let what = format!("after f64 history [{}]", log.join("; "));
        same_bits(&m, &a, r, c, &what)?;
        for i in 0..r {
            let row = m.get_row(i);
            if row.vec.iter().zip(&a[i]).any(|(p, q)| p.to_bits() != q.to_bits()) {
                return Err(format!("{}: get_row({}) = {:?}, expected {:?}", what, i, row.vec, a[i]));
            }
        }
        // norms of the matrix as it is now (a stale tail behind the logical end must not be counted)
        let nm = a.iter().flatten().map(|x| x.abs()).fold(0.0, f64::max);
        if m.norm_max() != nm {
            return Err(format!("{}: norm_max = {:e}, expected {:e}", what, m.norm_max(), nm));
        }
        let n1 = (0..c).map(|j| (0..r).map(|i| a[i][j].abs()).sum::<f64>()).fold(0.0, f64::max);
        let ni = a.iter().map(|row| row.iter().map(|x| x.abs()).sum::<f64>()).fold(0.0, f64::max);
        let tol = |v: f64| 4.0 * EPS * (r * c + 4) as f64 * v;
        if !((m.norm_1() - n1).abs() <= tol(n1)) || !((m.norm_inf() - ni).abs() <= tol(ni)) {
            return Err(format!("{}: norm_1 / norm_inf = {:e} / {:e}, expected {:e} / {:e}", what, m.norm_1(), m.norm_inf(), n1, ni));
        }
        let mut s2 = Dd::ZERO;
        for x in a.iter().flatten() {
            s2 = s2 + Dd::prod(*x, *x);
        }
        let fr = s2.to_f64().sqrt();
        if !((m.norm_frob() - fr).abs() <= tol(fr)) {
            return Err(format!("{}: norm_frob = {:e}, expected {:e}", what, m.norm_frob(), fr));
        }
        let mut fresh = Matrix::<f64>::new(r, c, 0.0);
        for i in 0..r {
            for j in 0..c {
                fresh[(i, j)] = a[i][j];
            }
        }
        if a.iter().flatten().all(|x| !x.is_nan()) && !(m == fresh) {
            return Err(format!("{}: same shape and entries as a freshly built matrix but == says they differ", what));
        }
    }
    case.class(format!("f64 data-movement history steps={}", (log.len() - 1) / 8 * 8));
    if log.len() > 5 {
        case.mark_nontrivial();
    }
    case.describe(|| format!("f64 history: {}", log.join("; ")));
    Ok(())
}

// ------------------------------------------------------------------ machine number types (f64, i64) on integer data
trait MachM: Copy + ohsl::Number + ohsl::Signed + std::ops::Neg<Output = Self> + std::fmt::Debug + PartialEq + 'static {
    const NAME: &'static str;
    fn from_i(v: i64) -> Self;
}
impl MachM for f64 {
    const NAME: &'static str = "f64";
    fn from_i(v: i64) -> Self {
        v as f64
    }
}
impl MachM for i64 {
    const NAME: &'static str = "i64";
    fn from_i(v: i64) -> Self {
        v
    }
}

/// The arithmetic of `algebra` for `Matrix<f64>` and `Matrix<i64>` on small integers (every result exact, i64 model):
/// another instantiation of the generic code may take another path (a fast path chosen by element size, say).
fn algebra_machine<T: MachM>(case: &mut Case) -> Result<(), String> {
    let (r, k, c) = (case.src.usize_below(9), case.src.usize_below(9), case.src.usize_below(9));
    let gen = |src: &mut Src, r: usize, c: usize| -> Vec<Vec<i64>> { (0..r).map(|_| (0..c).map(|_| src.small_int(9)).collect()).collect() };
    let a = gen(&mut case.src, r, k);
    let a2 = gen(&mut case.src, r, k);
    let b = gen(&mut case.src, k, c);
    let v: Vec<i64> = (0..k).map(|_| case.src.small_int(9)).collect();
    let s = case.src.small_int(7);
    let mk = |m: &Vec<Vec<i64>>, r: usize, c: usize| -> Matrix<T> {
        let mut x = Matrix::<T>::new(r, c, T::from_i(0));
        for i in 0..r {
            for j in 0..c {
                x[(i, j)] = T::from_i(m[i][j]);
            }
        }
        x
    };
    let eq = |m: &Matrix<T>, e: &Vec<Vec<i64>>, r: usize, c: usize, what: &str| -> Result<(), String> {
        if m.rows() != r || m.cols() != c {
            return Err(format!("{} {}: shape {}x{}, expected {}x{}", T::NAME, what, m.rows(), m.cols(), r, c));
        }
        for i in 0..r {
            for j in 0..c {
                if m[(i, j)] != T::from_i(e[i][j]) {
                    return Err(format!("{} {}: entry ({},{}) = {:?}, expected {}", T::NAME, what, i, j, m[(i, j)], e[i][j]));
                }
            }
        }
        Ok(())
    };
    let zip = |x: &Vec<Vec<i64>>, y: &Vec<Vec<i64>>, f: &dyn Fn(i64, i64) -> i64| -> Vec<Vec<i64>> { x.iter().zip(y).map(|(p, q)| p.iter().zip(q).map(|(u, w)| f(*u, *w)).collect()).collect() };
    let map = |x: &Vec<Vec<i64>>, f: &dyn Fn(i64) -> i64| -> Vec<Vec<i64>> { x.iter().map(|p| p.iter().map(|u| f(*u)).collect()).collect() };
    case.class(format!("{} algebra {}", T::NAME, if r == k && k == c { "square" } else { "rectangular" }));
    if r != k && k != c && r > 0 && k > 0 && c > 0 {
        case.mark_nontrivial();
    }
    case.describe(|| format!("{} algebra A={:?} A2={:?} B={:?} v={:?} s={}", T::NAME, a, a2, b, v, s));
    let (ma, ma2, mb) = (mk(&a, r, k), mk(&a2, r, k), mk(&b, k, c));
    let vv = Vector::<T>::create(v.iter().map(|x| T::from_i(*x)).collect());
    eq(&(&ma + &ma2), &zip(&a, &a2, &|p, q| p + q), r, k, "&A + &A2")?;
    eq(&(ma.clone() + ma2.clone()), &zip(&a, &a2, &|p, q| p + q), r, k, "A + A2")?;
    eq(&(&ma - &ma2), &zip(&a, &a2, &|p, q| p - q), r, k, "&A - &A2")?;
    eq(&(ma.clone() - ma2.clone()), &zip(&a, &a2, &|p, q| p - q), r, k, "A - A2")?;
    eq(&(-&ma), &map(&a, &|p| -p), r, k, "-&A")?;
    eq(&(-ma.clone()), &map(&a, &|p| -p), r, k, "-A")?;
    eq(&(&ma * T::from_i(s)), &map(&a, &|p| p * s), r, k, "&A * s")?;
    eq(&(ma.clone() * T::from_i(s)), &map(&a, &|p| p * s), r, k, "A * s")?;
    {
        let mut m = ma.clone();
        m += &ma2;
        eq(&m, &zip(&a, &a2, &|p, q| p + q), r, k, "A += &A2")?;
        m -= ma2.clone();
        eq(&m, &a, r, k, "(A += &A2) -= A2")?;
        m -= &ma2;
        m += ma2.clone();
        eq(&m, &a, r, k, "(A -= &A2) += A2")?;
        m *= T::from_i(s);
        eq(&m, &map(&a, &|p| p * s), r, k, "A *= s")?;
        m += T::from_i(s);
        eq(&m, &map(&a, &|p| p * s + s), r, k, "A += s")?;
        m -= T::from_i(s);
        eq(&m, &map(&a, &|p| p * s), r, k, "A -= s")?;
        if s != 0 {
            m /= T::from_i(s);
            eq(&m, &a, r, k, "(A *= s) /= s")?;
            eq(&(&(&ma * T::from_i(s)) / T::from_i(s)), &a, r, k, "(&A * s) / s")?;
            eq(&((ma.clone() * T::from_i(s)) / T::from_i(s)), &a, r, k, "(A * s) / s (owned)")?;
        }
    }
    // products
    let mut ab = vec![vec![0i64; c]; r];
    for i in 0..r {
        for j in 0..c {
            ab[i][j] = (0..k).map(|l| a[i][l] * b[l][j]).sum();
        }
    }
    eq(&(&ma * &mb), &ab, r, c, "&A * &B")?;
    eq(&(ma.clone() * mb.clone()), &ab, r, c, "A * B")?;
    let av: Vec<i64> = (0..r).map(|i| (0..k).map(|l| a[i][l] * v[l]).sum()).collect();
    for (what, got) in [("&A * &v", &ma * &vv), ("A * v", ma.clone() * vv.clone()), ("A.multiply(&v)", ma.multiply(&vv))] {
        if got.vec.len() != r || got.vec.iter().zip(&av).any(|(g, e)| *g != T::from_i(*e)) {
            return Err(format!("{} {} = {:?}, expected {:?}", T::NAME, what, got.vec, av));
        }
    }
    // transposes
    let at: Vec<Vec<i64>> = (0..k).map(|j| (0..r).map(|i| a[i][j]).collect()).collect();
    eq(&ma.transpose(), &at, k, r, "transpose()")?;
    {
        let mut m = ma.clone();
        m.transpose_in_place();
        eq(&m, &at, k, r, "transpose_in_place()")?;
        m.transpose_in_place();
        eq(&m, &a, r, k, "transpose_in_place() twice")?;
    }
    // rows and columns
    for i in 0..r {
        if ma.get_row(i).vec.iter().zip(&a[i]).any(|(g, e)| *g != T::from_i(*e)) || ma.get_row(i).vec.len() != k {
            return Err(format!("{} get_row({}) = {:?}", T::NAME, i, ma.get_row(i).vec));
        }
    }
    for j in 0..k {
        let col = ma.get_col(j).vec;
        if col.len() != r || (0..r).any(|i| col[i] != T::from_i(a[i][j])) {
            return Err(format!("{} get_col({}) = {:?}", T::NAME, j, col));
        }
    }
    eq(&ma, &a, r, k, "operand A after the by-reference operations")?;
    eq(&mb, &b, k, c, "operand B after the by-reference operations")?;
    // identity
    let n = r.max(1);
    let id = Matrix::<T>::eye(n);
    let ide: Vec<Vec<i64>> = (0..n).map(|i| (0..n).map(|j| (i == j) as i64).collect()).collect();
    eq(&id, &ide, n, n, "eye(n)")?;
    Ok(())
}

impl Prop for C03 {
    fn id(&self) -> &'static str {
        "C03"
    }
    fn rule(&self) -> String {
        "four case families selected by the first choice: (0) algebra: shape triple (r,k,c) in 0..=8^3 (all 729 enumerated in every run, plus random ones), \
         random small rationals; every operator/method of Matrix (products in borrowed and owned form, +,-,neg, scalar ops, compound assignments, transposes, eye, \
         row/column get/set for every column index, swap/delete/fill*/fill_band for every offset -9..9 and for offsets +-2^16, 2^31, 2^32, 2^33, 2^48, 2^62 (+-2) that must change nothing, resize to every target shape <= 8 (thorough) or a stride of them (quick), clear) \
         compared entry-by-entry and by shape with a Vec<Vec<Rat>> model; (1) histories of <= 40 editing steps on one matrix against the model, full comparison \
         (shape, numel, every entry, every row and column getter) after every step; (2) norms of integer-valued f64 matrices (norm_1/inf/max exact, norm_p for p in [1,8] and, on entries of modulus <= 1, p in {16, 64, 256, 1024, 4096, 1e5}, norm_frob vs double-double) and f64*Matrix; \
         (2b) the arithmetic of (1) for Matrix<f64> and Matrix<i64> on small integers against an i64 model (all operator forms, compound assignments, products with matrices and vectors, transposes, row/column getters, eye); (3) data-movement histories (element/row/column writes, swap_rows, swap_elem, delete_row incl. the last row, resize, transposes, fill_band, clone) on f64 matrices with non-dyadic mixed-magnitude values, compared bitwise after every step together with norm_max/1/inf/frob of the current matrix; \
         in (1) and (3) the matrix must also compare == to a freshly built matrix with the same entries. \
         Non-trivial: algebra with r != c or an empty dimension; history of >= 5 steps with a shape-changing step followed by a row/column operation; \
         norms of a non-square non-empty matrix. distinct = distinct decoded choice sequence."
            .into()
    }
    fn assumptions(&self) -> Vec<String> {
        vec![
            "identities are polynomial in the entries, so agreement on random rational points is a polynomial-identity test".into(),
            "norm_p / norm_frob tolerance 4*eps*(numel+4) relative".into(),
        ]
    }
    fn stream_len(&self, _tier: Tier) -> usize {
        1200
    }
    fn random_cases(&self, tier: Tier) -> usize {
        tier.pick(60_000, 2_000_000)
    }
    fn enum_prefixes(&self, _tier: Tier) -> Vec<Vec<u32>> {
        let mut v = Vec::with_capacity(729);
        for r in 0..9 {
            for k in 0..9 {
                for c in 0..9 {
                    v.push(vec![raw_for(0, 4), raw_for(r, 9), raw_for(k, 9), raw_for(c, 9)]);
                }
            }
        }
        v
    }
    fn enum_reps(&self, tier: Tier) -> usize {
        tier.pick(3, 20)
    }
    fn enum_note(&self, _tier: Tier) -> Option<String> {
        Some("all 729 shape triples (r,k,c) in 0..=8^3 for the algebra family, element values random".into())
    }
    fn run(&self, case: &mut Case) -> Outcome {
        let r = match case.src.below(4) {
            0 => algebra(case),
            1 => history(case),
            2 => norms(case),
            _ => {
                // (a new choice drawn after the family selector: the other families decode as before)
                match case.src.below(3) {
                    0 => algebra_machine::<f64>(case),
                    1 => algebra_machine::<i64>(case),
                    _ => history_f64(case),
                }
            }
        };
        match r {
            Ok(()) => Outcome::Pass,
            Err(m) => Outcome::Fail(m),
        }
    }
}
