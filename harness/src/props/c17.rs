//! C17 — Newton: success means a root; bounded work; failure reported; state untouched.

use crate::engine::{catch, Case, Outcome, Prop, Tier};
use crate::refla::{self, C};
use crate::stream::Src;
use ohsl::{Cmplx, Mat64, Matrix, Newton, Vec64, Vector};
use std::cell::RefCell;

pub struct C17;

/// inf-norm as the stopping test sees it: NaN when every component is NaN, the largest modulus when none is;
/// `None` for a vector with some NaN components only (the library's comparison-based norm is order dependent there,
/// the criterion is not judged)
fn norm_inf_nan(v: impl Iterator<Item = f64>) -> Option<f64> {
    let (mut m, mut nans, mut n) = (0.0f64, 0usize, 0usize);
    for t in v {
        n += 1;
        if t.is_nan() {
            nans += 1;
        } else {
            m = m.max(t);
        }
    }
    if nans == 0 {
        Some(m)
    } else if nans == n {
        Some(f64::NAN)
    } else {
        None
    }
}

fn bits_eq(a: f64, b: f64) -> bool {
    a.to_bits() == b.to_bits()
}
fn res_bits_f(a: &Result<f64, f64>, b: &Result<f64, f64>) -> bool {
    match (a, b) {
        (Ok(x), Ok(y)) | (Err(x), Err(y)) => bits_eq(*x, *y),
        _ => false,
    }
}
fn cb(a: Cmplx, b: Cmplx) -> bool {
    bits_eq(a.real, b.real) && bits_eq(a.imag, b.imag)
}

// ------------------------------------------------------------------ scalar families
#[derive(Clone, Copy)]
struct ScalarFn {
    kind: u32,
    r: f64,
    a: f64,
    b: f64,
    /// the equation is scale * (g(x) - g(r)) = 0: Newton's iterates do not depend on the scale
    scale: f64,
}
impl ScalarFn {
    fn g(&self, x: f64) -> f64 {
        match self.kind {
            0 => x * x * x + x,
            1 => x.exp(),
            2 => x.sinh(),
            3 => x.atan(),
            4 => (x - self.r) * (x - self.a) * (x - self.b) + 1.0, // roots r, a, b (f = g - g(r) = product)
            _ => x - 0.5 * x.cos(),
        }
    }
    fn f(&self, x: f64) -> f64 {
        self.scale * (self.g(x) - self.g(self.r))
    }
    fn gc(&self, z: Cmplx) -> Cmplx {
        match self.kind {
            0 => z * z * z + z,
            1 => z.exp(),
            2 => z * z,
            3 => z.sinh(),
            _ => z * z * z - z * 2.0,
        }
    }
}
const SCALAR_NAMES: [&str; 6] = ["x^3+x", "exp", "sinh", "atan", "cubic with separated roots", "x - cos(x)/2"];

fn gen_scalar(src: &mut Src) -> (ScalarFn, f64) {
    let kind = src.below(6);
    let r = src.f64_in(-2.0, 2.0);
    // the other two roots of the cubic family are at least 1 away from r
    let a = r + src.f64_in(1.0, 3.0);
    let b = r - src.f64_in(1.0, 3.0);
    let d = src.f64_in(-0.1, 0.1) * if kind == 4 { 0.5 } else { 1.0 };
    let scale = if src.coin() { 1.0 } else { 10f64.powf(src.f64_in(-6.0, 6.0)) };
    (ScalarFn { kind, r, a, b, scale }, r + d)
}

struct Cfg {
    tol: f64,
    delta: f64,
    max_iter: usize,
}
fn gen_cfg(src: &mut Src, success: bool) -> Cfg {
    let tol = 10f64.powf(src.f64_in(-12.0, -4.0));
    let delta = 10f64.powf(src.f64_in(-8.0, -6.0));
    let max_iter = if success { src.urange(20, 50) } else { src.urange(0, 50) };
    Cfg { tol, delta, max_iter }
}

fn scalar_real(case: &mut Case, success: bool) -> Result<(), String> {
    let cfg = gen_cfg(&mut case.src, success);
    let (sf, mut guess) = gen_scalar(&mut case.src);
    // termination half: arbitrary functions
    let bad_kind = if success { 0 } else { 1 + case.src.below(9) };
    if !success {
        // arbitrary guesses, including exactly 0.0 / the kink / the step (where a difference quotient can be 0 or NaN)
        guess = match case.src.below(5) {
            0 => 0.0,
            1 => 0.3,
            2 => case.src.small_int(3) as f64,
            _ => case.src.f64_in(-3.0, 3.0),
        };
    }
    let func = |x: f64| -> f64 {
        match bad_kind {
            0 => sf.f(x),
            1 => x * x + 1.0,           // root-free
            2 => x.exp(),               // root-free
            3 => 2.5,                   // constant
            4 => x.abs() + 0.0 * sf.r,  // non-differentiable at its root
            8 => x * x,                 // double root at 0: derivative vanishes at the root
            9 => 1.0 - x.cos(),         // double root at 0
            5 => if x > 0.3 { 1.0 } else { -1.0 }, // step
            6 => if x > 0.0 { f64::NAN } else { x - 1.0 }, // NaN-returning
            _ => sf.f(x),               // a solvable one with an arbitrary budget
        }
    };
    let log: RefCell<Vec<(f64, f64)>> = RefCell::new(Vec::new());
    let logged = |x: f64| -> f64 {
        let v = func(x);
        log.borrow_mut().push((x, v));
        v
    };
    // the guess is configured through the constructor or, one time in two, afterwards through guess()
    let mut nw = if case.src.coin() { Newton::<f64>::new(guess) } else { let mut t = Newton::<f64>::new(guess + 1.5); t.guess(guess); t };
    nw.tolerance(cfg.tol);
    nw.delta(cfg.delta);
    nw.iterations(cfg.max_iter);
    let before = nw.parameters();
    case.class(format!("scalar f64 {}", if success { format!("success {}", SCALAR_NAMES[sf.kind as usize]) } else { format!("termination kind {}", bad_kind) }));
    case.describe(|| format!("Newton<f64> {} family={} r={:e} guess={:e} tol={:e} delta={:e} max_iter={}", if success { "success" } else { "termination" }, if success { SCALAR_NAMES[sf.kind as usize].to_string() } else { format!("bad{}", bad_kind) }, sf.r, guess, cfg.tol, cfg.delta, cfg.max_iter));
    let res = match catch(|| nw.solve(&logged)) {
        Ok(r) => r,
        Err(e) => return Err(format!("Newton<f64>::solve panicked: {}", e)),
    };
    let evals = log.borrow().clone();
    let after = nw.parameters();
    if !(bits_eq(before.0, after.0) && bits_eq(before.1, after.1) && before.2 == after.2 && bits_eq(before.3, after.3)) {
        return Err(format!("parameters changed by solve: {:?} -> {:?}", before, after));
    }
    if !(bits_eq(after.0, cfg.tol) && bits_eq(after.1, cfg.delta) && after.2 == cfg.max_iter && bits_eq(after.3, guess)) {
        return Err(format!("parameters() = {:?} do not reflect the configured values", after));
    }
    if evals.len() > 3 * cfg.max_iter {
        return Err(format!("{} function evaluations with max_iter = {} (bound 3*max_iter)", evals.len(), cfg.max_iter));
    }
    // repeated call: identical result, identical evaluation sequence
    log.borrow_mut().clear();
    let res2 = nw.solve(&logged);
    if !res_bits_f(&res, &res2) {
        return Err(format!("two consecutive calls differ: {:?} then {:?}", res, res2));
    }
    if cfg.max_iter == 0 {
        return match res {
            Err(v) if bits_eq(v, guess) => Ok(()),
            other => Err(format!("max_iter = 0 must give Err(guess = {:e}), got {:?}", guess, other)),
        };
    }
    if cfg.max_iter >= 1 && !success {
        case.mark_nontrivial();
    }
    // iterates: every iteration evaluates the function at its current point and at current +- delta
    let mut centers: Vec<(f64, f64)> = Vec::new();
    if evals.len() % 3 == 0 {
        for ch in evals.chunks(3) {
            let mut found = None;
            for m in 0..3 {
                let o: Vec<usize> = (0..3).filter(|i| *i != m).collect();
                let (p, q) = (ch[o[0]].0, ch[o[1]].0);
                let mid = ch[m].0;
                if ((p - mid).abs() - cfg.delta).abs() <= 1e-3 * cfg.delta && ((q - mid).abs() - cfg.delta).abs() <= 1e-3 * cfg.delta && (p - mid) * (q - mid) < 0.0 {
                    found = Some(ch[m]);
                }
            }
            match found {
                Some(c) => centers.push(c),
                None => {
                    centers.clear();
                    break;
                }
            }
        }
    }
    let structured = !centers.is_empty() && centers.len() * 3 == evals.len() && centers.iter().all(|c| c.0.is_finite());
    if structured {
        if centers.len() > cfg.max_iter {
            return Err(format!("{} iterations executed with max_iter = {}", centers.len(), cfg.max_iter));
        }
        if !bits_eq(centers[0].0, guess) {
            return Err(format!("first iterate {:e} is not the configured guess {:e}", centers[0].0, guess));
        }
        // every non-final step was larger than the tolerance (otherwise the solver should have stopped there)
        for k in 0..centers.len() - 1 {
            let step = (centers[k + 1].0 - centers[k].0).abs();
            // (the step is reconstructed as a difference of iterates: exact only up to eps*(|x_k| + |x_k+1|))
            if step + 4.0 * f64::EPSILON * (centers[k + 1].0.abs() + centers[k].0.abs()) <= cfg.tol * (1.0 - 1e-9) {
                return Err(format!("iteration {} made a step of {:e} <= tol = {:e} but the solver continued", k, step, cfg.tol));
            }
        }
        let last = centers[centers.len() - 1];
        match res {
            Ok(v) => {
                let step = (v - last.0).abs();
                if !(step <= cfg.tol * (1.0 + 1e-9) + 4.0 * f64::EPSILON * (v.abs() + last.0.abs())) {
                    return Err(format!("Ok({:e}) although the last step {:e} exceeds tol = {:e} (last evaluated iterate {:e})", v, step, cfg.tol, last.0));
                }
            }
            Err(v) => {
                if centers.len() != cfg.max_iter {
                    return Err(format!("Err after {} iterations although max_iter = {}", centers.len(), cfg.max_iter));
                }
                let step = (v - last.0).abs();
                if step + 4.0 * f64::EPSILON * (v.abs() + last.0.abs()) <= cfg.tol * (1.0 - 1e-9) {
                    return Err(format!("Err({:e}) although the last step {:e} met the stopping criterion tol = {:e}", v, step, cfg.tol));
                }
                // the carried value is the last iterate: one Newton step beyond the last evaluated point
                let i = (centers.len() - 1) * 3;
                let ch = &evals[i..i + 3];
                let (mut fp, mut fm) = (f64::NAN, f64::NAN);
                for e in ch {
                    if e.0 > last.0 {
                        fp = e.1;
                    }
                    if e.0 < last.0 {
                        fm = e.1;
                    }
                }
                let d = (fp - fm) / (2.0 * cfg.delta);
                let expect = last.0 - last.1 / d;
                if expect.is_finite() && v.is_finite() {
                    if !((v - expect).abs() <= 1e-6 * (last.1 / d).abs() + 1e-12 * (1.0 + expect.abs())) {
                        return Err(format!("Err({:e}) is not the last iterate {:e} (last evaluated point {:e})", v, expect, last.0));
                    }
                } else if expect.is_finite() != v.is_finite() {
                    return Err(format!("Err({:e}) but the last iterate is {:e}", v, expect));
                }
            }
        }
        case.class("trajectory reconstructed from the closure log");
    }
    if success {
        match res {
            Ok(x) => {
                let it = evals.len() / 3;
                if it >= 3 {
                    case.mark_nontrivial();
                }
                if !((x - sf.r).abs() <= 10.0 * cfg.tol + 1e-12 * (1.0 + sf.r.abs())) {
                    return Err(format!("Ok({:e}) is {:e} away from the root {:e} (tol {:e})", x, (x - sf.r).abs(), sf.r, cfg.tol));
                }
            }
            Err(v) => return Err(format!("Err({:e}) from a guess inside the basin of quadratic convergence of the simple root {:e}", v, sf.r)),
        }
    }
    Ok(())
}

fn scalar_cmplx(case: &mut Case, success: bool) -> Result<(), String> {
    let cfg = gen_cfg(&mut case.src, success);
    let kind = case.src.below(5);
    let fscale = if case.src.coin() { 1.0 } else { 10f64.powf(case.src.f64_in(-6.0, 6.0)) };
    let sf = ScalarFn { kind, r: 0.0, a: 0.0, b: 0.0, scale: fscale };
    let r = {
        let m = case.src.f64_in(0.7, 2.0);
        let th = case.src.f64_in(-3.1, 3.1);
        Cmplx::new(m * th.cos(), m * th.sin())
    };
    // z^3 - 2z has its other critical structure at |z| ~ 0.8: keep the root for that family real and large
    let r = match kind {
        4 => Cmplx::new(1.6 + r.real.abs() * 0.2, 0.2 * r.imag),
        // sinh' = cosh vanishes at i(pi/2 + k pi): keep |Im r| <= 1 so that the root stays simple and well conditioned
        3 => Cmplx::new(r.real, r.imag.clamp(-1.0, 1.0)),
        // (z^3 + z)' vanishes at +-i/sqrt(3): keep |r| >= 1
        0 => r * (1.0 / r.abs()).max(1.0),
        _ => r,
    };
    let d = Cmplx::new(case.src.f64_in(-0.05, 0.05), case.src.f64_in(-0.05, 0.05));
    let guess = if success { r + d } else { Cmplx::new(case.src.f64_in(-2.0, 2.0), case.src.f64_in(-2.0, 2.0)) };
    let bad_kind = if success { 0 } else { 1 + case.src.below(4) };
    let gr = sf.gc(r);
    let func = |z: Cmplx| -> Cmplx {
        match bad_kind {
            0 => (sf.gc(z) - gr) * fscale,
            1 => z.exp(),                                  // root-free
            2 => Cmplx::new(1.5, -0.5),                    // constant
            3 => Cmplx::new(z.abs(), 0.0) + Cmplx::new(1.0, 0.0), // not analytic, root-free
            _ => (sf.gc(z) - gr) * fscale,
        }
    };
    let log: RefCell<Vec<Cmplx>> = RefCell::new(Vec::new());
    let logged = |z: Cmplx| -> Cmplx {
        log.borrow_mut().push(z);
        func(z)
    };
    // the guess is configured through the constructor or, one time in two, afterwards through guess()
    let mut nw = if case.src.coin() { Newton::<Cmplx>::new(guess) } else { let mut t = Newton::<Cmplx>::new(guess + Cmplx::new(1.5, -0.5)); t.guess(guess); t };
    nw.tolerance(cfg.tol);
    nw.delta(cfg.delta);
    nw.iterations(cfg.max_iter);
    let before = nw.parameters();
    case.class(format!("scalar cmplx {} kind {}", if success { "success" } else { "termination" }, if success { kind } else { bad_kind }));
    case.describe(|| format!("Newton<Cmplx> {} kind={} r={:?} guess={:?} tol={:e} delta={:e} max_iter={}", if success { "success" } else { "termination" }, kind, r, guess, cfg.tol, cfg.delta, cfg.max_iter));
    let res = match catch(|| nw.solve(&logged)) {
        Ok(r) => r,
        Err(e) => return Err(format!("Newton<Cmplx>::solve panicked: {}", e)),
    };
    let pts = log.borrow().clone();
    let n_evals = pts.len();
    let after = nw.parameters();
    if !(bits_eq(before.0, after.0) && bits_eq(before.1, after.1) && before.2 == after.2 && cb(before.3, after.3) && cb(after.3, guess)) {
        return Err(format!("parameters changed by solve: {:?} -> {:?}", before, after));
    }
    if n_evals > 3 * cfg.max_iter {
        return Err(format!("{} function evaluations with max_iter = {}", n_evals, cfg.max_iter));
    }
    let res2 = nw.solve(&logged);
    let same = match (&res, &res2) {
        (Ok(x), Ok(y)) | (Err(x), Err(y)) => cb(*x, *y),
        _ => false,
    };
    if !same {
        return Err(format!("two consecutive calls differ: {:?} then {:?}", res, res2));
    }
    if cfg.max_iter == 0 {
        return match res {
            Err(v) if cb(v, guess) => Ok(()),
            other => Err(format!("max_iter = 0 must give Err(guess), got {:?}", other)),
        };
    }
    // iterates: the evaluation point of each group of three that is the midpoint of the other two
    if n_evals % 3 == 0 && n_evals > 0 {
        let mut centers: Vec<Cmplx> = Vec::new();
        for ch in pts.chunks(3) {
            let mut found = None;
            for m in 0..3 {
                let o: Vec<usize> = (0..3).filter(|i| *i != m).collect();
                let (p, q) = (ch[o[0]] - ch[m], ch[o[1]] - ch[m]);
                if (p.abs() - cfg.delta).abs() <= 1e-3 * cfg.delta && (q.abs() - cfg.delta).abs() <= 1e-3 * cfg.delta && (p + q).abs() <= 1e-3 * cfg.delta {
                    found = Some(ch[m]);
                }
            }
            match found {
                Some(c) => centers.push(c),
                None => {
                    centers.clear();
                    break;
                }
            }
        }
        if !centers.is_empty() && centers.iter().all(|c| c.real.is_finite() && c.imag.is_finite()) {
            if centers.len() > cfg.max_iter {
                return Err(format!("{} iterations executed with max_iter = {}", centers.len(), cfg.max_iter));
            }
            if !cb(centers[0], guess) {
                return Err("the first iterate is not the configured guess".into());
            }
            for k in 0..centers.len() - 1 {
                let step = (centers[k + 1] - centers[k]).abs();
                if step + 4.0 * f64::EPSILON * (centers[k + 1].abs() + centers[k].abs()) <= cfg.tol * (1.0 - 1e-9) {
                    return Err(format!("iteration {} made a step of {:e} <= tol = {:e} but the solver continued", k, step, cfg.tol));
                }
            }
            let last = centers[centers.len() - 1];
            match &res {
                Ok(v) => {
                    let step = (*v - last).abs();
                    if !(step <= cfg.tol * (1.0 + 1e-9) + 4.0 * f64::EPSILON * (v.abs() + last.abs())) {
                        return Err(format!("Ok({:?}) although the last step {:e} exceeds tol = {:e}", v, step, cfg.tol));
                    }
                }
                Err(v) => {
                    if centers.len() != cfg.max_iter {
                        return Err(format!("Err after {} iterations although max_iter = {}", centers.len(), cfg.max_iter));
                    }
                    let step = (*v - last).abs();
                    if step + 4.0 * f64::EPSILON * (v.abs() + last.abs()) <= cfg.tol * (1.0 - 1e-9) {
                        return Err(format!("Err({:?}) although the last step {:e} met the stopping criterion", v, step));
                    }
                    // the carried value is one Newton step beyond the last evaluated point
                    let fl = func(last);
                    let d = (func(last + Cmplx::new(cfg.delta, 0.0)) - func(last - Cmplx::new(cfg.delta, 0.0))) / (2.0 * cfg.delta);
                    let expect = last - fl / d;
                    let fin = |z: Cmplx| z.real.is_finite() && z.imag.is_finite();
                    if fin(expect) && fin(*v) {
                        if !((*v - expect).abs() <= 1e-6 * (fl / d).abs() + 1e-12 * (1.0 + expect.abs())) {
                            return Err(format!("Err({:?}) is not the last iterate {:?}", v, expect));
                        }
                    } else if fin(expect) != fin(*v) {
                        return Err(format!("Err({:?}) but the last iterate is {:?}", v, expect));
                    }
                }
            }
            case.class("trajectory reconstructed from the closure log");
        }
    }
    if !success {
        case.mark_nontrivial();
        return Ok(());
    }
    match res {
        Ok(x) => {
            if n_evals / 3 >= 3 {
                case.mark_nontrivial();
            }
            let e = (x - r).abs();
            if !(e <= 10.0 * cfg.tol + 1e-12 * (1.0 + r.abs())) {
                return Err(format!("Ok({:?}) is {:e} away from the root {:?} (tol {:e})", x, e, r, cfg.tol));
            }
            Ok(())
        }
        Err(v) => Err(format!("Err({:?}) from a guess inside the basin of the simple root {:?}", v, r)),
    }
}

// ------------------------------------------------------------------ systems
struct Sys {
    n: usize,
    a: Vec<Vec<f64>>,
    eps: f64,
    phi: Vec<u32>,
    r: Vec<f64>,
    /// F is multiplied by this constant (the Newton iterates do not depend on it; the residual test does)
    scale: f64,
}
impl Sys {
    fn phi(&self, k: u32, x: f64) -> (f64, f64) {
        match k {
            0 => (x.sin(), x.cos()),
            1 => (x * x, 2.0 * x),
            2 => (x.atan(), 1.0 / (1.0 + x * x)),
            _ => (x.tanh(), 1.0 - x.tanh() * x.tanh()),
        }
    }
    fn g(&self, x: &[f64]) -> Vec<f64> {
        (0..self.n).map(|i| (0..self.n).map(|j| self.a[i][j] * x[j]).sum::<f64>() + self.eps * self.phi(self.phi[i], x[i]).0).collect()
    }
    fn f(&self, x: &[f64]) -> Vec<f64> {
        let gr = self.g(&self.r);
        self.g(x).iter().zip(&gr).map(|(p, q)| self.scale * (p - q)).collect()
    }
    fn jac(&self, x: &[f64]) -> Vec<Vec<f64>> {
        (0..self.n).map(|i| (0..self.n).map(|j| self.scale * (self.a[i][j] + if i == j { self.eps * self.phi(self.phi[i], x[i]).1 } else { 0.0 })).collect()).collect()
    }
}
fn gen_sys(src: &mut Src) -> Sys {
    let n = src.urange(1, 6);
    let mut a = vec![vec![0.0; n]; n];
    for i in 0..n {
        for j in 0..n {
            if i != j {
                // exact zeros among the off-diagonal entries (sparse Jacobians: pivot columns with zero candidates)
                let v = src.f64_in(-1.0, 1.0);
                a[i][j] = if src.below(3) == 0 { 0.0 } else { v };
            }
        }
        let s: f64 = a[i].iter().map(|v| v.abs()).sum();
        a[i][i] = (s + src.f64_in(1.0, 2.0)) * if src.coin() { 1.0 } else { -1.0 };
    }
    let scale = if src.coin() { 1.0 } else { 10f64.powf(src.f64_in(-3.0, 3.0)) };
    Sys { n, a, eps: src.f64_in(0.0, 0.2), phi: (0..n).map(|_| src.below(4)).collect(), r: (0..n).map(|_| src.f64_in(-1.5, 1.5)).collect(), scale }
}
fn inv_norm_inf(j: &[Vec<f64>]) -> f64 {
    let jc: Vec<Vec<C>> = j.iter().map(|r| r.iter().map(|v| (*v, 0.0)).collect()).collect();
    refla::inverse_c(&jc).map(|m| refla::norm_inf_m(&m)).unwrap_or(f64::INFINITY)
}

fn system_real(case: &mut Case, success: bool) -> Result<(), String> {
    let mut cfg = gen_cfg(&mut case.src, success);
    let sys = gen_sys(&mut case.src);
    let n = sys.n;
    // the residual test ||F|| <= tol must be attainable: F = scale*(g(x) - g(r)) is evaluated with an absolute
    // rounding error of about eps*scale*|g|
    let gmax = sys.g(&sys.r).iter().fold(1.0f64, |a, b| a.max(b.abs()));
    cfg.tol = cfg.tol.max(200.0 * f64::EPSILON * sys.scale * (gmax + 1.0));
    let supplied = case.src.coin();
    let mut guess: Vec<f64> = if success { sys.r.iter().map(|r| r + case.src.f64_in(-0.1, 0.1)).collect() } else { (0..n).map(|_| case.src.f64_in(-2.0, 2.0)).collect() };
    // kind 5: x_k^2 + 1 with its exact Jacobian diag(2 x_k) from a guess with components +-1: the first step lands
    // exactly on 0, where the Jacobian vanishes and the linear solve produces NaN - a failure, never a success
    let bad_kind = if success { 0 } else { 1 + case.src.below(5) };
    if bad_kind == 5 {
        guess = (0..n).map(|_| if case.src.coin() { 1.0 } else { -1.0 }).collect();
    }
    let func_evals: RefCell<Vec<Vec<f64>>> = RefCell::new(Vec::new());
    let jac_evals = RefCell::new(0usize);
    let func = |x: Vec64| -> Vec64 {
        func_evals.borrow_mut().push(x.vec.clone());
        let v: Vec<f64> = match bad_kind {
            0 | 4 => sys.f(&x.vec),
            1 | 5 => x.vec.iter().map(|t| t * t + 1.0).collect(),      // root-free
            2 => vec![1.0; n],                                          // constant: singular Jacobian
            _ => x.vec.iter().map(|t| t.abs() + 0.5).collect(),         // non-differentiable, root-free
        };
        Vector::create(v)
    };
    let jac = |x: Vec64| -> Mat64 {
        *jac_evals.borrow_mut() += 1;
        let off = if bad_kind == 5 { 0.0 } else { 0.1 };
        let j = if bad_kind == 0 || bad_kind == 4 { sys.jac(&x.vec) } else { (0..n).map(|i| (0..n).map(|k| if i == k { 2.0 * x.vec[i] + off } else { 0.0 }).collect()).collect() };
        let mut m = Mat64::new(n, n, 0.0);
        for i in 0..n {
            for k in 0..n {
                m[(i, k)] = j[i][k];
            }
        }
        m
    };
    let mut nw = if case.src.coin() { Newton::<Vec64>::new(Vector::create(guess.clone())) } else { let mut t = Newton::<Vec64>::new(Vector::create(vec![0.25; n])); t.guess(Vector::create(guess.clone())); t };
    nw.tolerance(cfg.tol);
    nw.delta(cfg.delta);
    nw.iterations(cfg.max_iter);
    case.class(format!("system f64 n={} {} {}", n, if supplied { "supplied-jacobian" } else { "finite-difference" }, if success { "success".to_string() } else { format!("termination kind {}", bad_kind) }));
    case.describe(|| format!("Newton<Vec64> n={} supplied={} success={} bad_kind={} A={:?} eps={} phi={:?} r={:?} guess={:?} tol={:e} delta={:e} max_iter={}", n, supplied, success, bad_kind, sys.a, sys.eps, sys.phi, sys.r, guess, cfg.tol, cfg.delta, cfg.max_iter));
    let run = |nw: &Newton<Vec64>| if supplied { nw.solve_jacobian(&func, &jac) } else { nw.solve(&func) };
    let res = match catch(|| run(&nw)) {
        Ok(r) => r,
        Err(e) => return Err(format!("Newton<Vec64> solve panicked: {}", e)),
    };
    if let Ok(v) = &res {
        if v.vec.iter().any(|t| !t.is_finite()) {
            return Err(format!("Ok({:?}): a non-finite vector reported as a root", v.vec));
        }
    }
    let evals = func_evals.borrow().clone();
    let nj = *jac_evals.borrow();
    let bound = if supplied { cfg.max_iter } else { (n + 2) * cfg.max_iter };
    if evals.len() > bound || nj > cfg.max_iter {
        return Err(format!("{} function and {} Jacobian evaluations with max_iter = {} (bounds {} / {})", evals.len(), nj, cfg.max_iter, bound, cfg.max_iter));
    }
    // configuration and guess untouched; repeated call identical
    func_evals.borrow_mut().clear();
    let res2 = run(&nw);
    let vb = |a: &Vec64, b: &Vec64| a.vec.len() == b.vec.len() && a.vec.iter().zip(&b.vec).all(|(p, q)| bits_eq(*p, *q));
    let same = match (&res, &res2) {
        (Ok(x), Ok(y)) | (Err(x), Err(y)) => vb(x, y),
        _ => false,
    };
    if !same {
        return Err(format!("two consecutive calls differ: {:?} then {:?}", res, res2));
    }
    if cfg.max_iter == 0 {
        return match res {
            Err(v) if v.vec.iter().zip(&guess).all(|(p, q)| bits_eq(*p, *q)) => Ok(()),
            other => Err(format!("max_iter = 0 must give Err(guess), got {:?}", other)),
        };
    }
    // centres of the iterations: the first evaluation of every group
    let per = if supplied { 1 } else { n + 2 };
    let structured = evals.len() % per == 0 && !evals.is_empty();
    if structured {
        let iters = evals.len() / per;
        if iters > cfg.max_iter {
            return Err(format!("{} iterations executed with max_iter = {}", iters, cfg.max_iter));
        }
        if !evals[0].iter().zip(&guess).all(|(p, q)| bits_eq(*p, *q)) {
            return Err("the first evaluation is not at the configured guess".into());
        }
        let resid = |x: &Vec<f64>| -> Option<f64> {
            let v: Vec<f64> = match bad_kind {
                0 | 4 => sys.f(x),
                1 | 5 => x.iter().map(|t| t * t + 1.0).collect(),
                2 => vec![1.0; n],
                _ => x.iter().map(|t| t.abs() + 0.5).collect(),
            };
            norm_inf_nan(v.iter().map(|t| t.abs()))
        };
        if (0..iters).any(|k| resid(&evals[k * per]).is_none()) {
            case.class("partly-NaN residual: criterion not judged");
            return if success { Err("NaN residual components on an in-basin run".into()) } else { Ok(()) };
        }
        let resid = |x: &Vec<f64>| resid(x).unwrap();
        for k in 0..iters - 1 {
            let rk = resid(&evals[k * per]);
            if rk <= cfg.tol {
                return Err(format!("iteration {} had residual {:e} <= tol = {:e} but the solver continued", k, rk, cfg.tol));
            }
        }
        let last = &evals[(iters - 1) * per];
        let rl = resid(last);
        match &res {
            Ok(v) => {
                if !(rl <= cfg.tol) {
                    return Err(format!("Ok({:?}) although the residual {:e} at the last iterate exceeds tol = {:e}", v.vec, rl, cfg.tol));
                }
            }
            Err(v) => {
                if iters != cfg.max_iter {
                    return Err(format!("Err after {} iterations although max_iter = {}", iters, cfg.max_iter));
                }
                if rl <= cfg.tol {
                    return Err(format!("Err({:?}) although the stopping criterion was met (residual {:e} <= tol {:e})", v.vec, rl, cfg.tol));
                }
                // the carried vector is the last iterate: J(last) (last - v) = F(last) up to the finite-difference error
                if bad_kind == 0 || bad_kind == 4 {
                    let j = sys.jac(last);
                    let fl = sys.f(last);
                    let dxv: Vec<f64> = last.iter().zip(&v.vec).map(|(p, q)| p - q).collect();
                    if dxv.iter().all(|t| t.is_finite()) {
                        let jd: Vec<f64> = (0..n).map(|i| (0..n).map(|k| j[i][k] * dxv[k]).sum()).collect();
                        let e = jd.iter().zip(&fl).map(|(p, q)| (p - q).abs()).fold(0.0, f64::max);
                        let scale = fl.iter().map(|t| t.abs()).fold(0.0, f64::max);
                        if !(e <= 1e-3 * scale + 1e-9) {
                            return Err(format!("Err({:?}) is not the last iterate: J*(x_last - v) differs from F(x_last) by {:e} (|F| = {:e})", v.vec, e, scale));
                        }
                    }
                }
            }
        }
        case.class("trajectory reconstructed from the closure log");
    }
    if !success {
        case.mark_nontrivial();
        return Ok(());
    }
    match res {
        Ok(x) => {
            if evals.len() / per >= 3 {
                case.mark_nontrivial();
            }
            let e = x.vec.iter().zip(&sys.r).map(|(p, q)| (p - q).abs()).fold(0.0, f64::max);
            let bound = 10.0 * inv_norm_inf(&sys.jac(&sys.r)) * cfg.tol + 1e-10;
            if !(e <= bound) {
                return Err(format!("Ok({:?}) is {:e} away from the root {:?} (bound {:e})", x.vec, e, sys.r, bound));
            }
            Ok(())
        }
        Err(v) => Err(format!("Err({:?}) from a guess inside the basin of the root {:?}", v.vec, sys.r)),
    }
}

fn system_cmplx(case: &mut Case, success: bool) -> Result<(), String> {
    let cfg = gen_cfg(&mut case.src, success);
    let sys = gen_sys(&mut case.src);
    let n = sys.n;
    let supplied = case.src.coin();
    // complex version: F(z) = A z + eps z^2 (componentwise) - same at the root; root complex
    let rt: Vec<Cmplx> = (0..n).map(|i| Cmplx::new(sys.r[i], case.src.f64_in(-1.0, 1.0))).collect();
    let guess: Vec<Cmplx> = if success { rt.iter().map(|r| *r + Cmplx::new(case.src.f64_in(-0.05, 0.05), case.src.f64_in(-0.05, 0.05))).collect() } else { (0..n).map(|_| Cmplx::new(case.src.f64_in(-2.0, 2.0), case.src.f64_in(-2.0, 2.0))).collect() };
    let eps = sys.eps * 0.5;
    let g = |z: &[Cmplx]| -> Vec<Cmplx> {
        (0..n)
            .map(|i| {
                let mut s = Cmplx::new(0.0, 0.0);
                for j in 0..n {
                    s += z[j] * sys.a[i][j];
                }
                s + z[i] * z[i] * eps
            })
            .collect()
    };
    let gr = g(&rt);
    // termination kinds: 0 arbitrary budget on the regular system, 1 exp (root-free), 2 z_k^2 + 1 with its exact Jacobian
    // from a real guess with components +-1 (the first step lands exactly on 0: singular Jacobian, NaN iterate)
    let bad_kind: u32 = if success { 0 } else { case.src.below(3) };
    let bad = bad_kind != 0;
    let guess: Vec<Cmplx> = if bad_kind == 2 { (0..n).map(|_| Cmplx::new(if case.src.coin() { 1.0 } else { -1.0 }, 0.0)).collect() } else { guess };
    let flog: RefCell<Vec<(Vec<Cmplx>, f64)>> = RefCell::new(Vec::new());
    let nj = RefCell::new(0usize);
    let func = |z: Vector<Cmplx>| -> Vector<Cmplx> {
        let v: Vec<Cmplx> = if bad_kind == 1 { z.vec.iter().map(|t| t.exp()).collect() /* root-free */ } else if bad_kind == 2 { z.vec.iter().map(|t| *t * *t + Cmplx::new(1.0, 0.0)).collect() } else { g(&z.vec).iter().zip(&gr).map(|(p, q)| *p - *q).collect() };
        flog.borrow_mut().push((z.vec.clone(), norm_inf_nan(v.iter().map(|t| t.abs())).unwrap_or(f64::NEG_INFINITY)));
        Vector::create(v)
    };
    let jac = |z: Vector<Cmplx>| -> Matrix<Cmplx> {
        *nj.borrow_mut() += 1;
        let mut m = Matrix::<Cmplx>::new(n, n, Cmplx::new(0.0, 0.0));
        for i in 0..n {
            for j in 0..n {
                m[(i, j)] = if bad { if i != j { Cmplx::new(0.0, 0.0) } else if bad_kind == 1 { z.vec[i].exp() } else { z.vec[i] * 2.0 } } else { Cmplx::new(sys.a[i][j], 0.0) + if i == j { z.vec[i] * (2.0 * eps) } else { Cmplx::new(0.0, 0.0) } };
            }
        }
        m
    };
    let mut nw = if case.src.coin() { Newton::<Vector<Cmplx>>::new(Vector::create(guess.clone())) } else { let mut t = Newton::<Vector<Cmplx>>::new(Vector::create(vec![Cmplx::new(0.25, 0.0); n])); t.guess(Vector::create(guess.clone())); t };
    nw.tolerance(cfg.tol);
    nw.delta(cfg.delta);
    nw.iterations(cfg.max_iter);
    case.class(format!("system cmplx n={} {} {}", n, if supplied { "supplied-jacobian" } else { "finite-difference" }, if success { "success" } else if bad_kind == 1 { "termination root-free" } else if bad_kind == 2 { "termination singular-landing" } else { "termination arbitrary-budget" }));
    case.describe(|| format!("Newton<Vector<Cmplx>> n={} supplied={} success={} bad={} A={:?} eps={} root={:?} guess={:?} tol={:e} delta={:e} max_iter={}", n, supplied, success, bad, sys.a, eps, rt, guess, cfg.tol, cfg.delta, cfg.max_iter));
    let run = |nw: &Newton<Vector<Cmplx>>| if supplied { nw.solve_jacobian(&func, &jac) } else { nw.solve(&func) };
    let res = match catch(|| run(&nw)) {
        Ok(r) => r,
        Err(e) => return Err(format!("Newton<Vector<Cmplx>> solve panicked: {}", e)),
    };
    if let Ok(v) = &res {
        if v.vec.iter().any(|t| !(t.real.is_finite() && t.imag.is_finite())) {
            return Err(format!("Ok({:?}): a non-finite vector reported as a root", v.vec));
        }
    }
    let evals = flog.borrow().clone();
    let (cf, cj) = (evals.len(), *nj.borrow());
    let bound = if supplied { cfg.max_iter } else { (n + 2) * cfg.max_iter };
    if cf > bound || cj > cfg.max_iter {
        return Err(format!("{} function and {} Jacobian evaluations with max_iter = {}", cf, cj, cfg.max_iter));
    }
    let res2 = run(&nw);
    let vb = |a: &Vector<Cmplx>, b: &Vector<Cmplx>| a.vec.len() == b.vec.len() && a.vec.iter().zip(&b.vec).all(|(p, q)| cb(*p, *q));
    let same = match (&res, &res2) {
        (Ok(x), Ok(y)) | (Err(x), Err(y)) => vb(x, y),
        _ => false,
    };
    if !same {
        return Err(format!("two consecutive calls differ: {:?} then {:?}", res, res2));
    }
    if cfg.max_iter == 0 {
        return match res {
            Err(v) if v.vec.iter().zip(&guess).all(|(p, q)| cb(*p, *q)) => Ok(()),
            other => Err(format!("max_iter = 0 must give Err(guess), got {:?}", other)),
        };
    }
    {
        let per = if supplied { 1 } else { n + 2 };
        if cf % per == 0 && cf > 0 {
            let iters = cf / per;
            if iters > cfg.max_iter {
                return Err(format!("{} iterations executed with max_iter = {}", iters, cfg.max_iter));
            }
            if !evals[0].0.iter().zip(&guess).all(|(p, q)| cb(*p, *q)) {
                return Err("the first evaluation is not at the configured guess".into());
            }
            if (0..iters).any(|k| evals[k * per].1 == f64::NEG_INFINITY) {
                // partly-NaN residual: the library's comparison-based norm is order dependent there
                case.class("partly-NaN residual: criterion not judged");
                return if success { Err("NaN residual components on an in-basin run".into()) } else { Ok(()) };
            }
            for k in 0..iters - 1 {
                if evals[k * per].1 <= cfg.tol {
                    return Err(format!("iteration {} had residual {:e} <= tol = {:e} but the solver continued", k, evals[k * per].1, cfg.tol));
                }
            }
            let rl = evals[(iters - 1) * per].1;
            match &res {
                Ok(v) => {
                    if !(rl <= cfg.tol) {
                        return Err(format!("Ok({:?}) although the residual {:e} at the last iterate exceeds tol = {:e}", v.vec, rl, cfg.tol));
                    }
                }
                Err(v) => {
                    if iters != cfg.max_iter {
                        return Err(format!("Err after {} iterations although max_iter = {}", iters, cfg.max_iter));
                    }
                    if rl <= cfg.tol {
                        return Err(format!("Err({:?}) although the stopping criterion was met (residual {:e})", v.vec, rl));
                    }
                    let last = &evals[(iters - 1) * per].0;
                    if v.vec.len() != n || (v.vec.iter().zip(last).all(|(p, q)| cb(*p, *q)) && rl > 0.0 && rl.is_finite()) {
                        return Err(format!("Err({:?}) carries the iterate before the last update, not the last iterate", v.vec));
                    }
                }
            }
            case.class("trajectory reconstructed from the closure log");
        }
    }
    if !success {
        case.mark_nontrivial();
        return Ok(());
    }
    match res {
        Ok(x) => {
            let per = if supplied { 1 } else { n + 2 };
            if cf / per >= 3 {
                case.mark_nontrivial();
            }
            let e = x.vec.iter().zip(&rt).map(|(p, q)| (*p - *q).abs()).fold(0.0, f64::max);
            // J(r) = A + 2 eps diag(r): bound ||J^-1||_inf from the complex reference inverse
            let jc: Vec<Vec<C>> = (0..n).map(|i| (0..n).map(|j| if i == j { (sys.a[i][j] + 2.0 * eps * rt[i].real, 2.0 * eps * rt[i].imag) } else { (sys.a[i][j], 0.0) }).collect()).collect();
            let inv = refla::inverse_c(&jc).map(|m| refla::norm_inf_m(&m)).unwrap_or(f64::INFINITY);
            let bound = 10.0 * inv * cfg.tol + 1e-10;
            if !(e <= bound) {
                return Err(format!("Ok({:?}) is {:e} away from the root {:?} (bound {:e})", x.vec, e, rt, bound));
            }
            Ok(())
        }
        Err(v) => Err(format!("Err({:?}) from a guess inside the basin of the root {:?}", v.vec, rt)),
    }
}

impl Prop for C17 {
    fn id(&self) -> &'static str {
        "C17"
    }
    fn rule(&self) -> String {
        "per case one of the six methods (Newton<f64>, Newton<Cmplx>, Newton<Vec64> and Newton<Vector<Cmplx>> with finite-difference or supplied Jacobian) and one of two halves. \
         Success half (3/5): f = c (g - g(r)), c = 1 or 10^[-6,6] (systems 10^[-3,3]), with g in {x^3+x, exp, sinh, atan, cubic with roots >= 1 apart, x - cos(x)/2} (complex: z^3+z, exp, z^2, sinh, z^3-2z), root r known by construction, guess within 0.1 (0.05) of r, inside the basin of quadratic convergence; \
         systems F(x) = A x + eps phi(x) - (A r + eps phi(r)) of dimension 1..=6 with strictly diagonally dominant A, eps <= 0.2 and smooth component-wise phi; tol = 10^[-12,-4], delta = 10^[-8,-6], max_iter 20..=50: \
         the call must return Ok within 10 tol + 1e-12 (scalar) / 10 ||J(r)^-1|| tol + 1e-10 (systems) of r. Termination half (2/5): root-free, constant, non-differentiable, step and NaN-returning functions and solvable ones with max_iter 0..=50. \
         Always: no panic; evaluations <= 3 max_iter (scalar), (n+2) max_iter (finite-difference systems), max_iter function and Jacobian calls (supplied); parameters() identical before and after and equal to the configured values; two consecutive calls bit-identical; \
         max_iter = 0 => Err(guess) bitwise; from the evaluation points logged inside the closures the iterates are reconstructed: no earlier iteration met the stopping criterion, Ok iff it is met at the last executed iteration, Err only after exactly max_iter iterations and carrying the next iterate. \
         Non-trivial: success case needing >= 3 iterations; termination case with max_iter >= 1. distinct = distinct decoded choice sequence."
            .into()
    }
    fn assumptions(&self) -> Vec<String> {
        vec![
            "the stopping criteria are those documented in the property anchors: |dx| <= tol (scalar), inf-norm of the residual at the current iterate <= tol (systems)".into(),
            "the trajectory reconstruction is skipped (only counts/accuracy are checked) when the evaluation pattern is not 3 / n+2 / 1 calls per iteration".into(),
        ]
    }
    fn stream_len(&self, _tier: Tier) -> usize {
        160
    }
    fn random_cases(&self, tier: Tier) -> usize {
        tier.pick(80_000, 1_500_000)
    }
    fn run(&self, case: &mut Case) -> Outcome {
        let method = case.src.below(4);
        let success = case.src.below(5) < 3;
        let r = match method {
            0 => scalar_real(case, success),
            1 => scalar_cmplx(case, success),
            2 => system_real(case, success),
            _ => system_cmplx(case, success),
        };
        match r {
            Ok(()) => Outcome::Pass,
            Err(m) => Outcome::Fail(m),
        }
    }
}
