//! C02 — determinant and inverse agree with exact linear algebra; matrix left intact.

use super::util::*;
use crate::engine::{catch, Case, Outcome, Prop, Tier};
use crate::gen::{fmt_mat, Elem};
use crate::rat::Rat;
use crate::refla::{self, M};
use crate::stream::Src;
use ohsl::Cmplx;

pub struct C02;

/// |det - det_exact| <= DET_C * n^3 * eps * max(1,rho_ref) * H   (H = product of row 2-norms).
/// Calibration on the repaired tree: worst observed ratio 0.12 (see DESIGN.md section 4).
const DET_C: f64 = 16.0;
/// |X - X_exact|_max <= INV_C * n * eps * kappa_inf * max|X_exact|; worst observed ratio 0.55
const INV_C: f64 = 64.0;
/// gradual-underflow allowance for the subnormal-column determinant: UF_C * n^2 * rho * 2^(k-1074) * (column Hadamard bound)
const UF_C: f64 = 32.0;

const SING: [&str; 6] = ["dup-row", "row-combination", "zero-row", "zero-col", "low-rank", "dup-col"];

fn gen_singular<T: Elem>(src: &mut Src, n: usize) -> (M<T>, &'static str) {
    let z = T::from_int(0);
    let kind = SING[src.below(SING.len() as u32) as usize];
    let mut a: M<T> = (0..n).map(|_| (0..n).map(|_| T::small(src)).collect()).collect();
    match kind {
        "dup-row" if n >= 2 => {
            let i = src.usize_below(n);
            let mut j = src.usize_below(n - 1);
            if j >= i {
                j += 1;
            }
            a[j] = a[i].clone();
        }
        "dup-col" if n >= 2 => {
            let i = src.usize_below(n);
            let mut j = src.usize_below(n - 1);
            if j >= i {
                j += 1;
            }
            for r in 0..n {
                a[r][j] = a[r][i];
            }
        }
        "row-combination" if n >= 3 => {
            let t = src.usize_below(n);
            let c1 = T::small_nz(src);
            let c2 = T::small_nz(src);
            let (p, q) = ((t + 1) % n, (t + 2) % n);
            for j in 0..n {
                a[t][j] = c1 * a[p][j] + c2 * a[q][j];
            }
        }
        "zero-col" => {
            let c = src.usize_below(n);
            for r in 0..n {
                a[r][c] = z;
            }
        }
        "low-rank" if n >= 3 => {
            let r = src.urange(1, n - 2);
            let u: M<T> = (0..n).map(|_| (0..r).map(|_| T::small(src)).collect()).collect();
            let v: M<T> = (0..r).map(|_| (0..n).map(|_| T::small(src)).collect()).collect();
            a = refla::matmul(&u, &v, z, n);
        }
        _ => {
            let r = src.usize_below(n);
            for j in 0..n {
                a[r][j] = z;
            }
            return (a, "zero-row");
        }
    }
    (a, kind)
}

fn run_t<T: Elem>(case: &mut Case) -> Outcome {
    let n = case.src.urange(1, 8);
    let want_singular = case.src.below(4) == 0;
    let (mut a0, mut kind) = if want_singular { gen_singular::<T>(&mut case.src, n) } else { gen_square_k::<T>(&mut case.src, n, 6) };
    // float types, half of the "dense" cases of order >= 5: a growth trap - unit diagonal (random signs), every entry below
    // the diagonal of column j equal to -c_j times the diagonal (c_j = k/8, 1.125 <= c_j <= 7.875), last column ones.  With
    // true partial pivoting the growth stays small; a thresholded or lazy exchange rule lets it compound like prod(1+c_j)
    if !T::EXACT && kind == "dense" && n >= 5 && case.src.coin() {
        let z = T::from_int(0);
        // complex: in half of the traps every entry below the diagonal is purely imaginary (a pivot search that looks at
        // real parts instead of moduli sees zeros there and never exchanges)
        let rot = T::NAME == "cmplx" && case.src.coin();
        for j in 0..n {
            let sgn = if case.src.coin() { 1i64 } else { -1 };
            let k = 9 + case.src.below(55) as i64;
            for i in 0..n {
                a0[i][j] = if i == j {
                    T::from_int(sgn)
                } else if i > j {
                    let v = T::from_int(-k * sgn).scale2(-3);
                    if rot { v.times_i() } else { v }
                } else if j == n - 1 {
                    T::from_int(1)
                } else {
                    z
                };
            }
        }
        kind = "growth-trap";
    }
    // float types: the whole matrix may live at a very small or very large scale, 2^k with |k| <= 60
    // (det scales by 2^(k n), the inverse by 2^-k, both exactly)
    let gk: i32 = if !T::EXACT && case.src.below(3) == 0 { case.src.small_int(60) as i32 } else { 0 };
    let a: M<T> = if gk == 0 { a0.clone() } else { a0.iter().map(|r| r.iter().map(|v| v.scale2(gk)).collect()).collect() };
    if gk != 0 {
        case.class("globally scaled by 2^k, |k| <= 60");
    }
    let Some(ax) = mat_exact(&a0) else { return Outcome::Discard("not-representable") };
    let (det_x, rank) = refla::det_rank(&ax);
    if crate::rat::overflowed() {
        return Outcome::Discard("rat-overflow");
    }
    let singular = rank < n;
    let ac = mat_c(&a0);
    let info = refla::gepp(&ac, None);
    case.class(format!("{}:{}", T::NAME, kind));
    case.class(if singular { format!("singular rank-deficit={}", (n - rank).min(3)) } else { format!("nonsingular exchanges%2={}", info.exchanges % 2) });
    case.class(format!("n={}", n));
    if n >= 3 && (singular || info.exchanges >= 2) {
        case.mark_nontrivial();
    }
    case.describe(|| format!("{} n={} kind={} rank={} A={}", T::NAME, n, kind, rank, fmt_mat(&a)));

    let m = to_matrix(&a, n, n);
    // ---- determinant
    let det = match catch(|| m.determinant()) {
        Ok(d) => d,
        Err(e) => return Outcome::Fail(format!("determinant() panicked: {} (exact det = {:?})", e, det_x)),
    };
    if !same_mat(&from_matrix(&m), &a) {
        return Outcome::Fail("determinant() modified the matrix".into());
    }
    if T::EXACT {
        if det.to_exact() != Some(det_x) {
            return Outcome::Fail(format!("determinant {:?} != exact {:?}", det, det_x));
        }
    } else {
        if !det.finite() {
            return Outcome::Fail(format!("determinant is not finite: {:?} (exact {:?})", det, det_x));
        }
        // undo the global scaling exactly
        let mut dsc = det;
        let mut left = -(gk as i64) * n as i64;
        while left != 0 {
            let step = left.clamp(-900, 900);
            dsc = dsc.scale2(step as i32);
            left -= step;
        }
        let dc = dsc.to_c();
        let ex = T::x_to_c(&det_x);
        let err = refla::cabs(refla::csub(dc, ex));
        let structurally_zero = a.iter().any(|r| r.iter().all(|v| v.is_zero_e())) || (0..n).any(|j| (0..n).all(|i| a[i][j].is_zero_e()));
        if structurally_zero && !(dc.0 == 0.0 && dc.1 == 0.0) {
            return Outcome::Fail(format!("matrix with a zero row/column has determinant {:?}, expected exactly 0", det));
        }
        let unit = (n * n * n) as f64 * EPS * info.growth.max(1.0) * hadamard(&ac);
        if unit > 0.0 { crate::calib::note("c02.det err/(n^3 eps rho H)", err / unit, || format!("{} {} n={}", T::NAME, kind, n)); }
        if !(err <= DET_C * unit) {
            return Outcome::Fail(format!("determinant {:?} differs from exact {:?} by {:.3e} > {:.3e}", det, ex, err, DET_C * unit));
        }
    }
    // ---- float types: the same matrix with rows and columns at very different scales (exact powers of two, 2^+-40):
    //      det(D1 A D2) = det(A) * 2^(sum of the exponents), exactly
    if !T::EXACT && case.src.below(3) == 0 {
        let rs: Vec<i32> = (0..n).map(|_| case.src.small_int(40) as i32).collect();
        let cs: Vec<i32> = (0..n).map(|_| case.src.small_int(40) as i32).collect();
        let b: M<T> = a0.iter().enumerate().map(|(i, r)| r.iter().enumerate().map(|(j, v)| v.scale2(rs[i]).scale2(cs[j])).collect()).collect();
        let bc = mat_c(&b);
        let infob = refla::gepp(&bc, None);
        let total: i32 = rs.iter().sum::<i32>() + cs.iter().sum::<i32>();
        let db = match catch(|| to_matrix(&b, n, n).determinant()) {
            Ok(d) => d,
            Err(e) => return Outcome::Fail(format!("determinant() panicked on a row/column-scaled matrix: {}", e)),
        };
        let ex = T::x_to_c(&det_x);
        let exs = (ex.0 * 2f64.powi(total), ex.1 * 2f64.powi(total));
        let err = refla::cabs(refla::csub(db.to_c(), exs));
        // (rows of very different size after the scaling: the perturbation scale of elimination with partial pivoting is
        // relative to the largest entry, see util::hadamard_gepp)
        let unit = (n * n * n) as f64 * EPS * infob.growth.max(1.0) * hadamard_gepp(&bc);
        if unit > 0.0 && unit.is_finite() {
            crate::calib::note("c02.det(scaled rows/cols) err/(n^3 eps rho H)", err / unit, || format!("{} {} n={}", T::NAME, kind, n));
        }
        if unit.is_finite() && exs.0.is_finite() && exs.1.is_finite() && !(err <= DET_C * unit) {
            return Outcome::Fail(format!("determinant of the matrix with rows scaled by 2^{:?} and columns by 2^{:?} is {:?}, exact {:?} (error {:.3e} > {:.3e}); base matrix {}", rs, cs, db, exs, err, DET_C * unit, fmt_mat(&a0)));
        }
        case.class("determinant of a badly scaled variant");
    }
    // ---- f64: one column made of subnormal numbers (times 2^-k, 1026 <= k <= 1040: every pivot candidate of that
    //      column is subnormal) and another one times 2^k2, 700 <= k2 <= 900 (head-room for element growth and for the running product of the
    //      pivots), so that the determinant det(A') 2^(k2-k) is an ordinary number.  Judged when every reference pivot
    //      is >= 1/4 in modulus, so that a partial product of pivots that lands in the subnormal range keeps a relative
    //      precision of 4^n 2^(k-1074).  Elimination is invariant under column scaling except for gradual
    //      underflow (absolute error 2^-1074 per operation in the tiny column, i.e. 2^(k-1074) relative to it).
    if T::NAME == "f64" && n >= 2 && n <= 5 && !singular && case.src.below(4) == 0 {
        let k = 1026 + case.src.below(15) as i32;
        let k2 = 700 + case.src.below(201) as i32;
        let cs = case.src.usize_below(n);
        let cb = (cs + 1 + case.src.usize_below(n - 1)) % n;
        let ld = |x: f64, e: i32| x * 2f64.powi(e / 2) * 2f64.powi(e - e / 2);
        let f: M<f64> = a0.iter().map(|r| r.iter().map(|v| v.to_c().0).collect()).collect();
        let b: M<f64> = f.iter().map(|r| r.iter().enumerate().map(|(j, v)| if j == cs { ld(*v, -k) } else if j == cb { ld(*v, k2) } else { *v }).collect()).collect();
        // exact twin: the tiny column scaled back up exactly, the big one down
        let up: M<f64> = b.iter().map(|r| r.iter().enumerate().map(|(j, v)| if j == cs { ld(*v, k) } else if j == cb { ld(*v, -k2) } else { *v }).collect()).collect();
        if let Some(upx) = mat_exact(&up) {
            let (dx, rk) = refla::det_rank(&upx);
            if !crate::rat::overflowed() && rk == n {
                let upc = mat_c(&up);
                let infu = refla::gepp(&upc, None);
                let db = match catch(|| to_matrix(&b, n, n).determinant()) {
                    Ok(d) => d,
                    Err(e) => return Outcome::Fail(format!("determinant() panicked on a matrix with a subnormal column: {}", e)),
                };
                if !db.is_finite() {
                    return Outcome::Fail(format!("determinant of a matrix with a subnormal column (column {} times 2^-{}, column {} times 2^{}) is {:?}; exact value {:?} * 2^{}; matrix {:?}", cs, k, cb, k2, db, dx, k2 - k, b));
                }
                let ex = <f64 as Elem>::x_to_c(&dx).0 * 2f64.powi(k2 - k);
                let hc: f64 = (0..n).map(|j| (0..n).map(|i| up[i][j] * up[i][j]).sum::<f64>().sqrt()).product::<f64>() * 2f64.powi(k2 - k);
                let rho = infu.growth.max(1.0);
                let amax = up.iter().flatten().fold(0.0f64, |m, v| m.max(v.abs()));
                if !(infu.min_pivot_rel * amax >= 0.25) {
                    return Outcome::Pass;
                }
                let unit = (n * n * n) as f64 * EPS * rho * hc;
                let uf = (n * n) as f64 * rho * ld(1.0, k - 1074) * 4f64.powi(n as i32) * hc;
                let err = (db - ex).abs();
                crate::calib::note("c02.det(subnormal column) (err - DET_C unit)/uf", (err - DET_C * unit) / uf, || format!("{} n={} k={} k2={}", kind, n, k, k2));
                if !(err <= DET_C * unit + UF_C * uf) {
                    return Outcome::Fail(format!("determinant of a matrix with a subnormal column is {:?}, exact {:?} (error {:.3e} > {:.3e}); matrix {:?}", db, ex, err, DET_C * unit + UF_C * uf, b));
                }
                case.class("determinant with a subnormal column");
            }
        }
    }
    // ---- transpose invariance and multiplicativity (exact types)
    if T::EXACT {
        let at = refla::transpose(&a, n);
        let dt = match catch(|| to_matrix(&at, n, n).determinant()) {
            Ok(d) => d,
            Err(e) => return Outcome::Fail(format!("determinant() of the transpose panicked: {}", e)),
        };
        if !dt.same(&det) {
            return Outcome::Fail(format!("det(A^T) = {:?} != det(A) = {:?}", dt, det));
        }
        if n <= 5 {
            let (b, _) = gen_square_k::<T>(&mut case.src, n, 6);
            let ab = refla::matmul(&a, &b, T::from_int(0), n);
            let r = catch(|| (to_matrix(&b, n, n).determinant(), to_matrix(&ab, n, n).determinant()));
            match r {
                Ok((db, dab)) => {
                    if !(det * db).same(&dab) {
                        return Outcome::Fail(format!("det(AB) = {:?} != det(A) det(B) = {:?} * {:?}; B={}", dab, det, db, fmt_mat(&b)));
                    }
                }
                Err(e) => return Outcome::Fail(format!("determinant() panicked on B or AB: {}; B={}", e, fmt_mat(&b))),
            }
        }
    }
    // ---- inverse
    if singular {
        return Outcome::Pass;
    }
    let inv = match catch(|| m.inverse()) {
        Ok(x) => x,
        Err(e) => return Outcome::Fail(format!("inverse() panicked on a nonsingular matrix: {}", e)),
    };
    if !same_mat(&from_matrix(&m), &a) {
        return Outcome::Fail("inverse() modified the matrix".into());
    }
    if inv.rows() != n || inv.cols() != n {
        return Outcome::Fail(format!("inverse has shape {}x{}", inv.rows(), inv.cols()));
    }
    let x = from_matrix(&inv);
    if T::EXACT {
        let id = identity::<T>(n);
        let z = T::from_int(0);
        if refla::matmul(&a, &x, z, n) != id {
            return Outcome::Fail(format!("A * inverse(A) != I; inverse = {}", fmt_mat(&x)));
        }
        if refla::matmul(&x, &a, z, n) != id {
            return Outcome::Fail(format!("inverse(A) * A != I; inverse = {}", fmt_mat(&x)));
        }
    } else {
        let Some(xe) = refla::inverse(&ax) else { return Outcome::Fail("internal: exact inverse missing".into()) };
        if crate::rat::overflowed() {
            return Outcome::Discard("rat-overflow");
        }
        let xec: M<refla::C> = xe.iter().map(|r| r.iter().map(|v| T::x_to_c(v)).collect()).collect();
        let xmax = xec.iter().flatten().map(|z| refla::cabs(*z)).fold(0.0, f64::max);
        let kappa = refla::norm_inf_m(&ac) * refla::norm_inf_m(&xec);
        let mut worst: f64 = 0.0;
        for i in 0..n {
            for j in 0..n {
                if !x[i][j].finite() {
                    return Outcome::Fail(format!("inverse entry ({},{}) is not finite: {:?}", i, j, x[i][j]));
                }
                worst = worst.max(refla::cabs(refla::csub(x[i][j].scale2(gk).to_c(), xec[i][j])));
            }
        }
        let unit = n as f64 * EPS * kappa * xmax;
        crate::calib::note("c02.inv err/(n eps kappa xmax)", worst / unit, || format!("{} {} n={}", T::NAME, kind, n));
        if !(worst <= INV_C * unit) {
            return Outcome::Fail(format!("inverse differs from the exact inverse by {:.3e} > {:.3e} (kappa {:.2e})", worst, INV_C * unit, kappa));
        }
    }
    Outcome::Pass
}

impl Prop for C02 {
    fn id(&self) -> &'static str {
        "C02"
    }
    fn rule(&self) -> String {
        "random choice streams decode to (element type in {rat, integer-valued f64, Gaussian-integer cmplx}, order 1..=8, \
         1/4 singular constructions {duplicate row/column, row combination, zero row, zero column at any position, rank <= n-2} and \
         3/4 structured matrices {P*L*U, sparse+transversal, planted zero leading pivots, (permuted) triangular, signed/scaled permutation, dense}; float matrices scaled as a whole by 2^k, |k| <= 60, with probability 1/3); \
         determinant compared with exact fraction elimination (for floats also on a variant with rows and columns scaled by individual powers of two 2^+-40) (Gaussian rationals for cmplx), transpose/multiplicativity laws over rat, \
         inverse multiplied back exactly (rat) or compared with the exact rational inverse (floats), operand snapshot compared bitwise. \
         Non-trivial: n >= 3 and (singular, or the reference elimination needs >= 2 row exchanges); distinct = distinct decoded choice sequence."
            .into()
    }
    fn assumptions(&self) -> Vec<String> {
        vec![
            "exact oracle in i128 rationals; overflowing cases discarded and counted".into(),
            format!("float determinant bound {}*n^3*eps*max(1,rho_ref)*prod(row 2-norms); a structurally zero row/column must give exactly 0", DET_C),
            format!("float inverse bound {}*n*eps*kappa_inf*max|X_exact| against the exact rational inverse", INV_C),
            format!("f64 determinant with one subnormal column (times 2^-k, 1026..1040) and one large column (times 2^700..2^900): bound {}*n^3*eps*rho*Hc + {}*n^2*rho*4^n*2^(k-1074)*Hc (n <= 5, reference pivots >= 1/4) with Hc the product of the column 2-norms (elimination is column-scaling invariant up to gradual underflow)", DET_C, UF_C),
        ]
    }
    fn stream_len(&self, _tier: Tier) -> usize {
        480
    }
    fn random_cases(&self, tier: Tier) -> usize {
        tier.pick(100_000, 2_000_000)
    }
    fn run(&self, case: &mut Case) -> Outcome {
        match case.src.below(3) {
            0 => run_t::<Rat>(case),
            1 => run_t::<f64>(case),
            _ => run_t::<Cmplx>(case),
        }
    }
}
