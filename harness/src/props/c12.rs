//! C12 — polynomial division: u = q*v + r, deg r < deg v, for every nonzero divisor.

use super::c11::{coeffs_of, m_add, m_mul};
use super::util::EPS;
use crate::dd::Cdd;
use crate::engine::{catch, Case, Outcome, Prop, Tier};
use crate::gen::Elem;
use crate::rat::Rat;
use crate::refla::cabs;
use crate::stream::Src;
use ohsl::{Cmplx, Polynomial};

pub struct C12;

/// coefficient-wise |u - (q v + r)|_k <= RES_C * eps * (sum_i |q_i||v_{k-i}| + |r_k| + |u_k|);
/// worst observed ratio on the repaired tree 2.1 (degree 10 / 6, coefficient ratio 1e6)
const RES_C: f64 = 256.0;

#[derive(Clone, Copy, PartialEq)]
enum Flavor {
    Exact,      // rationals / small integers
    IntFloat,   // integer-valued floats (1/49-type quotients)
    General,    // general floats with coefficient ratio <= 1e6
}

fn gen_coef<T: Elem>(src: &mut Src, fl: Flavor) -> T {
    match fl {
        Flavor::Exact => T::small(src),
        Flavor::IntFloat => T::from_int(src.small_int(60)),
        Flavor::General => {
            // mantissa in (-1,1) scaled by 2^0..2^20 (ratio up to 1e6)
            let k = src.below(21) as i32;
            T::cont(src).scale2(k)
        }
    }
}
fn gen_nz<T: Elem>(src: &mut Src, fl: Flavor) -> T {
    for _ in 0..8 {
        let v = gen_coef::<T>(src, fl);
        if !v.is_zero_e() {
            return v;
        }
    }
    T::from_int(1)
}

fn run_t<T: Elem>(case: &mut Case) -> Result<Outcome, String> {
    let fl = if T::EXACT { Flavor::Exact } else { [Flavor::Exact, Flavor::IntFloat, Flavor::General][case.src.below(3) as usize] };
    let mode = case.src.below(10);
    if mode == 0 {
        // ---- error half: empty or all-zero divisor
        let ulen = case.src.usize_below(6);
        let u: Vec<T> = (0..ulen).map(|_| gen_coef::<T>(&mut case.src, fl)).collect();
        let vlen = case.src.usize_below(4);
        let v: Vec<T> = vec![T::from_int(0); vlen];
        case.class(format!("{} zero/empty divisor", T::NAME));
        case.describe(|| format!("{} u={:?} v={:?} (zero divisor)", T::NAME, u, v));
        let (pu, pv) = (Polynomial::<T>::new(u.clone()), Polynomial::<T>::new(v.clone()));
        return match catch(|| pu.polydiv(&pv).map(|(q, r)| (coeffs_of(&q), coeffs_of(&r)))) {
            Err(e) => Err(format!("polydiv panicked on a zero/empty divisor: {}", e)),
            Ok(Ok((q, r))) => Err(format!("division by the zero/empty polynomial returned Ok(q={:?}, r={:?})", q, r)),
            Ok(Err(_)) => Ok(Outcome::Pass),
        };
    }
    let du = case.src.usize_below(11);
    let dv = case.src.usize_below(7);
    let mut u: Vec<T> = (0..=du).map(|_| gen_coef::<T>(&mut case.src, fl)).collect();
    let mut v: Vec<T> = (0..=dv).map(|_| gen_coef::<T>(&mut case.src, fl)).collect();
    v[dv] = gen_nz::<T>(&mut case.src, fl);
    if case.src.below(8) != 0 {
        u[du] = gen_nz::<T>(&mut case.src, fl);
    }
    // float data at any scale: dividend and divisor scaled independently by exact powers of two (|k| <= 200)
    if fl != Flavor::Exact && case.src.below(3) == 0 {
        let (ku, kv) = (case.src.small_int(200) as i32, case.src.small_int(200) as i32);
        u = u.iter().map(|c| c.scale2(ku)).collect();
        v = v.iter().map(|c| c.scale2(kv)).collect();
        case.class("operands scaled by 2^k, |k| <= 200");
    }
    let (pu, pv) = (Polynomial::<T>::new(u.clone()), Polynomial::<T>::new(v.clone()));
    let fname = match fl {
        Flavor::Exact => "exact-data",
        Flavor::IntFloat => "integer-valued",
        Flavor::General => "general-float",
    };
    case.class(format!("{} {} deg u {} deg v", T::NAME, fname, if du >= dv { ">=" } else { "<" }));
    let nonunit_lead = !(v[dv] == T::from_int(1));
    if du >= dv && dv >= 1 && ((T::EXACT && nonunit_lead) || fl != Flavor::Exact) {
        case.mark_nontrivial();
    }
    case.describe(|| format!("{} {} u={:?} v={:?}", T::NAME, fname, u, v));
    let res = match catch(|| pu.polydiv(&pv).map(|(q, r)| (coeffs_of(&q), coeffs_of(&r)))) {
        Err(e) => return Err(format!("polydiv panicked: {}", e)),
        Ok(r) => r,
    };
    let (q, r) = match res {
        Err(e) => return Err(format!("polydiv returned Err({:?}) for a divisor with non-zero leading coefficient", e)),
        Ok(x) => x,
    };
    if coeffs_of(&pu) != u || coeffs_of(&pv) != v {
        return Err("polydiv modified an operand".into());
    }
    // degree condition on the returned representation: r = 0 or deg r < deg v
    let r_zero = r.iter().all(|c| c.is_zero_e());
    if !r_zero && !(r.len() - 1 < dv) {
        return Err(format!("remainder {:?} has degree {} >= deg v = {} (q = {:?})", r, r.len() - 1, dv, q));
    }
    if q.len() > 1 && q.last().unwrap().is_zero_e() {
        return Err(format!("quotient {:?} carries a zero leading coefficient", q));
    }
    let qv = m_mul(&q, &v);
    if T::EXACT || fl == Flavor::Exact && false {
        let recon = m_add(&qv, &r);
        // compare as polynomials (trailing zeros of the longer list are irrelevant)
        let n = recon.len().max(u.len());
        let z = T::from_int(0);
        for k in 0..n {
            let a = *recon.get(k).unwrap_or(&z);
            let b = *u.get(k).unwrap_or(&z);
            if !(a == b) {
                return Err(format!("q*v + r != u at x^{}: q={:?} r={:?} q*v+r={:?}", k, q, r, recon));
            }
        }
    } else {
        let n = (q.len() + v.len()).max(u.len()).max(r.len());
        for k in 0..n {
            let mut s = Cdd::ZERO;
            let mut mag = 0.0;
            for i in 0..q.len() {
                if k >= i && k - i < v.len() {
                    s = s + Cdd::from(q[i].to_c()) * Cdd::from(v[k - i].to_c());
                    mag += cabs(q[i].to_c()) * cabs(v[k - i].to_c());
                }
            }
            if k < r.len() {
                if !r[k].finite() {
                    return Err(format!("remainder coefficient {} is not finite: {:?}", k, r));
                }
                s = s + Cdd::from(r[k].to_c());
                mag += cabs(r[k].to_c());
            }
            let uk = if k < u.len() { u[k].to_c() } else { (0.0, 0.0) };
            mag += cabs(uk);
            let err = (s - Cdd::from(uk)).abs();
            if mag > 0.0 {
                crate::calib::note("c12 resid/(eps*terms)", err / (EPS * mag), || format!("{} {} du={} dv={}", T::NAME, fname, du, dv));
            }
            if !(err <= RES_C * EPS * mag) {
                return Err(format!("|u - (q v + r)| at x^{} is {:.3e} > {:.3e}; q={:?} r={:?}", k, err, RES_C * EPS * mag, q, r));
            }
        }
        if q.iter().any(|c| !c.finite()) {
            return Err(format!("quotient has a non-finite coefficient: {:?}", q));
        }
    }
    Ok(Outcome::Pass)
}

impl Prop for C12 {
    fn id(&self) -> &'static str {
        "C12"
    }
    fn rule(&self) -> String {
        "dividend of degree 0..=10 (leading coefficient zero with probability 1/8) and divisor of degree 0..=6 with non-zero leading coefficient (constants and divisors longer than the dividend included) over \
         {rationals; f64 and Complex<f64> with small-integer data, integer-valued data up to 60 (1/49-type quotients), general data with full random mantissas and coefficient ratio up to 2^20; float operands additionally scaled by independent powers of two 2^k, |k| <= 200, with probability 1/3}; \
         1/10 of the cases use an empty or all-zero divisor and must return Err. Oracle: Ok((q,r)) (an Err or a panic is a violation), operands unchanged, r = 0 or deg r < deg v on the returned representation, \
         no zero leading coefficient in q, and u = q v + r exactly (rationals) or coefficient-wise within 256*eps*(sum|q_i||v_{k-i}| + |r_k| + |u_k|) evaluated in double-double (floats). \
         Non-trivial: deg u >= deg v >= 1 and (float data, or rational data with a non-unit leading divisor coefficient). distinct = distinct decoded choice sequence."
            .into()
    }
    fn assumptions(&self) -> Vec<String> {
        vec![format!("float reconstruction tolerance {}*eps per coefficient relative to the sum of absolute values of its terms", RES_C)]
    }
    fn stream_len(&self, _tier: Tier) -> usize {
        96
    }
    fn random_cases(&self, tier: Tier) -> usize {
        tier.pick(150_000, 3_000_000)
    }
    fn run(&self, case: &mut Case) -> Outcome {
        let r = match case.src.below(3) {
            0 => run_t::<Rat>(case),
            1 => run_t::<f64>(case),
            _ => run_t::<Cmplx>(case),
        };
        match r {
            Ok(o) => o,
            Err(m) => Outcome::Fail(m),
        }
    }
}
