//! C08 — iterative solvers: reported success means solved to the tolerance.

use super::itersys::*;
use super::util::EPS;
use crate::engine::{catch, Case, Outcome, Prop, Tier};
use ohsl::Vector;

pub struct C08;

fn run(case: &mut Case) -> Result<Outcome, String> {
    let nmax = case.tier.pick(30, 60);
    let n = 1 + case.src.usize_below(nmax);
    let kind = case.src.usize_below(KINDS.len());
    // quick tier: the B^T B + mu I systems (the ones whose runs are long) are generated at twice the order drawn, 2..=60,
    // so that runs of more than 100 iterations occur in every tier
    // ... and for every other kind the top of the quick range, 26..=30, stands for the orders 56..=60
    let n = if case.tier == Tier::Quick && KINDS[kind] == "spd-btb" { 2 * n } else if case.tier == Tier::Quick && n > 25 { n + 30 } else { n };
    let mut a = gen_matrix(&mut case.src, n, kind);
    let badly_scaled = case.src.below(6) == 0;
    if badly_scaled {
        bad_scale(&mut case.src, &mut a);
    }
    // the whole matrix at another scale (exact power of two, about 1e-9 .. 1e9)
    if case.src.below(4) == 0 {
        let k = case.src.small_int(30) as i32;
        for v in a.iter_mut().flatten() {
            *v *= 2f64.powi(k);
        }
    }
    // right-hand side: zero, consistent (A x*), or random
    let rhs_kind = case.src.below(5);
    let xstar: Vec<f64> = (0..n).map(|_| case.src.f64_in(-2.0, 2.0)).collect();
    let b: Vec<f64> = match rhs_kind {
        0 => vec![0.0; n],
        1 | 2 => matvec(&a, &xstar),
        _ => {
            // any scale: usually 1e-6 .. 1e6, sometimes 1e-140 .. 1e140 (squares still representable)
            let sc = if case.src.below(3) == 0 { 10f64.powf(case.src.f64_in(-140.0, 140.0)) } else { 10f64.powf(case.src.f64_in(-6.0, 6.0)) };
            (0..n).map(|_| sc * case.src.f64_in(-1.0, 1.0)).collect()
        }
    };
    let guess_kind = case.src.below(5);
    let x0: Vec<f64> = match guess_kind {
        0 => vec![0.0; n],
        1 => (0..n).map(|_| case.src.f64_in(-3.0, 3.0)).collect(),
        2 => xstar.clone(),
        3 => (0..n).map(|_| 1e8 * case.src.f64_in(-1.0, 1.0)).collect(),
        _ => {
            // tiny but non-zero
            let sc = 10f64.powf(case.src.f64_in(-20.0, -12.0));
            (0..n).map(|_| sc * case.src.f64_in(-1.0, 1.0)).collect()
        }
    };
    let tol = 10f64.powf(case.src.f64_in(-12.0, -2.0));
    let budget = match case.src.below(8) {
        0 => 0,
        1 => 1,
        2 => 2,
        3 => 3,
        4 => n,
        5 => 10 * n,
        6 => 1000,
        _ => 1 + case.src.usize_below(3 * n),
    };
    let first = case.src.usize_below(5);
    let sp = to_sparse(&a, &mut case.src);
    let bv = Vector::create(b.clone());
    let kind_name = if badly_scaled { "badly-scaled" } else { KINDS[kind] };
    case.describe(|| format!("all five entry points (first {}) n={} kind={} rhs_kind={} guess_kind={} tol={:.3e} budget={} A={:?} b={:?} x0={:?}", SOLVERS[first], n, kind_name, rhs_kind, guess_kind, tol, budget, a, b, x0));
    let mut known: Option<(&'static str, String)> = None;
    for off in 0..5 {
        let solver = (first + off) % 5;
        if let Some(k) = one_solver(case, solver, &sp, &bv, &a, &b, &x0, n, tol, budget, kind_name)? {
            known = Some(k);
        }
    }
    if let Some((k, w)) = known {
        return Ok(Outcome::Known(k, w));
    }
    Ok(Outcome::Pass)
}

/// drift allowance constant (survey override: VERIF_C08_DRIFT)
fn drift_c() -> f64 {
    static F: std::sync::OnceLock<f64> = std::sync::OnceLock::new();
    *F.get_or_init(|| std::env::var("VERIF_C08_DRIFT").ok().and_then(|v| v.parse().ok()).unwrap_or(200.0))
}

#[allow(clippy::too_many_arguments)]
fn one_solver(case: &mut Case, solver: usize, sp: &ohsl::Sparse<f64>, bv: &Vector<f64>, a: &D, b: &[f64], x0: &[f64], n: usize, tol: f64, budget: usize, kind_name: &str) -> Result<Option<(&'static str, String)>, String> {
    let a = a.clone();
    let b = b.to_vec();
    let x0 = x0.to_vec();
    let mut xv = Vector::create(x0.clone());

    let res = match catch(|| call(solver, sp, bv, &mut xv, budget, tol)) {
        Ok(r) => r,
        Err(e) => return Err(format!("{} panicked on a conformable system: {}", SOLVERS[solver], e)),
    };
    if bv.vec.iter().zip(&b).any(|(p, q)| p.to_bits() != q.to_bits()) {
        return Err("solver modified the right-hand side".into());
    }
    let x = xv.vec.clone();
    let untouched = x.iter().zip(&x0).all(|(p, q)| p.to_bits() == q.to_bits());
    if budget == 0 && !untouched {
        return Err(format!("iteration budget 0 but x was modified: {:?} -> {:?}", x0, x));
    }
    match res {
        Err(_) => {
            case.class(format!("{} {} Err", SOLVERS[solver], kind_name));
            Ok(None)
        }
        Ok(it) => {
            case.class(format!("{} {} Ok", SOLVERS[solver], kind_name));
            if it > 100 {
                case.class(format!("{} Ok after more than 100 iterations", SOLVERS[solver]));
            }
            if it >= 2 && n >= 5 {
                case.mark_nontrivial();
            }
            if it > budget {
                return Err(format!("reported {} iterations with a budget of {}", it, budget));
            }
            if it == 0 && !untouched {
                return Err(format!("Ok(0) but x was modified: {:?} -> {:?}", x0, x));
            }
            if x.iter().any(|v| !v.is_finite()) {
                return Err(format!("{}: Ok({}) with a non-finite x: {:?}", SOLVERS[solver], it, x));
            }
            // the reported count is the number of iterations actually needed: with exactly that budget the call
            // repeats itself bit for bit, with one less it cannot report the same or a larger count
            if it >= 1 && (it % 4 == 1 || it > 100) {
                let mut xr = Vector::create(x0.clone());
                let r1 = catch(|| call(solver, sp, bv, &mut xr, it, tol));
                let same = xr.vec.iter().zip(&x).all(|(p, q)| p.to_bits() == q.to_bits());
                if !matches!(r1, Ok(Ok(k)) if k == it) || !same {
                    return Err(format!("{}: Ok({}) with budget {}, but with budget {} the call answers {:?}{}", SOLVERS[solver], it, budget, it, r1, if same { "" } else { " and leaves another x" }));
                }
                if it >= 2 {
                    let mut xs = Vector::create(x0.clone());
                    if let Ok(Ok(k)) = catch(|| call(solver, sp, bv, &mut xs, it - 1, tol)) {
                        if k > it - 1 {
                            return Err(format!("{}: budget {} but Ok({}) reported", SOLVERS[solver], it - 1, k));
                        }
                    }
                }
                case.class("count confirmed with the exact budget");
            }
            let nb = norm2(&b);
            let nbn = if nb == 0.0 { 1.0 } else { nb };
            let res_true = true_residual(&a, &x, &b);
            let fa = frob(&a);
            let c = drift_c() * (n as f64 + 2.0);
            let drift = |xmax: f64| c * EPS * (it as f64 + 1.0) * (fa * xmax + nb);
            let claim = tol * nbn * (1.0 + 1e-9);
            let xmax_cheap = norm2(&x0).max(norm2(&x));
            if crate::calib::on() && res_true > claim {
                let mut xm = xmax_cheap;
                for k in 1..it {
                    let mut xr = Vector::create(x0.clone());
                    let _ = call(solver, sp, bv, &mut xr, k, tol);
                    let nx = norm2(&xr.vec);
                    if nx.is_finite() {
                        xm = xm.max(nx);
                    }
                }
                crate::calib::note("c08 (res-claim)/(eps (it+1)(|A| Xmax_measured + |b|))", (res_true - claim) / (EPS * (it as f64 + 1.0) * (fa * xm + nb)).max(1e-300), || format!("{} n={} {} it={}", SOLVERS[solver], n, kind_name, it));
                let nm: &'static str = ["c08 ratio/(n+2) cg", "c08 ratio/(n+2) bicg1", "c08 ratio/(n+2) bicg2", "c08 ratio/(n+2) bicgstab", "c08 ratio/(n+2) qmr"][solver];
                crate::calib::note(nm, (res_true - claim) / ((n as f64 + 2.0) * EPS * (it as f64 + 1.0) * (fa * xm + nb)).max(1e-300), || format!("{} n={} {} it={} tol={:.1e}", SOLVERS[solver], n, kind_name, it, tol));
                if solver == 4 {
                    let nm2: &'static str = if it > n { "c08 qmr ratio/(n+2), it > n" } else { "c08 qmr ratio/(n+2), it <= n" };
                    crate::calib::note(nm2, (res_true - claim) / ((n as f64 + 2.0) * EPS * (it as f64 + 1.0) * (fa * xm + nb)).max(1e-300), || format!("n={} {} it={} tol={:.1e}", n, kind_name, it, tol));
                }
                crate::calib::note("c08 same / (n+2)", (res_true - claim) / ((n as f64 + 2.0) * EPS * (it as f64 + 1.0) * (fa * xm + nb)).max(1e-300), || format!("{} n={} {} it={}", SOLVERS[solver], n, kind_name, it));
            }
            if res_true <= claim + drift(xmax_cheap) {
                crate::calib::note("c08 (res-claim)/drift-unit", (res_true - claim) / (EPS * (it as f64 + 1.0) * (fa * xmax_cheap + nb)).max(1e-300), || format!("{} n={} {}", SOLVERS[solver], n, kind_name));
                return Ok(None);
            }
            // measure the largest iterate by deterministic budget replay
            let mut xmax = xmax_cheap;
            for k in 1..it {
                let mut xr = Vector::create(x0.clone());
                let _ = call(solver, sp, bv, &mut xr, k, tol);
                let nx = norm2(&xr.vec);
                if nx.is_finite() {
                    xmax = xmax.max(nx);
                }
            }
            case.class("largest iterate measured by budget replay");
            if res_true <= claim + drift(xmax) {
                return Ok(None);
            }
            // known finding D15 - signature: QMR, a matrix of the generated class "badly scaled" (rows and columns times
            // 2^+-20), success reported after more iterations than the order of the system (the Lanczos process has
            // run past its exact termination, its vectors are rounding noise)
            if solver == 4 && kind_name == "badly-scaled" && it > n && case.findings.is_known("C08", "D15-qmr-false-convergence-past-termination") {
                return Ok(Some((
                    "D15-qmr-false-convergence-past-termination",
                    "solve_qmr on a badly row/column-scaled system keeps iterating after the Lanczos process has exhausted the Krylov space (iteration count > order) and reports success on its recurrence residual while the true residual is 1e2..1e7 drift units above the tolerance".into(),
                )));
            }
            Err(format!(
                "{} returned Ok({}) but the true residual ||b - A x|| = {:.6e} exceeds tol*||b|| = {:.6e} + drift allowance {:.3e} (largest iterate {:.3e}); x = {:?}",
                SOLVERS[solver], it, res_true, claim, drift(xmax), xmax, x
            ))
        }
    }
}

impl Prop for C08 {
    fn id(&self) -> &'static str {
        "C08"
    }
    fn rule(&self) -> String {
        "random square sparse systems of order 1..=30 (thorough 1..=60) of kinds {SPD diagonally dominant, SPD B^T B + mu I, symmetric indefinite, strictly diagonally dominant nonsymmetric with positive / mixed-sign diagonal, \
         general nonsymmetric, singular (zero row / zero column / equal rows), badly scaled by 2^+-20 rows and columns}; optionally the whole matrix times 2^k, |k| <= 30; right-hand side zero / consistent / random of scale 1e-6..1e6 (1/3 of them 1e-140..1e140); initial guess zero / random / exact / huge (1e8) / tiny non-zero (1e-20..1e-12); \
         tol = 10^[-12,-2]; budget in {0,1,2,3,n,10n,1000,random}; all five entry points (CG, BiCG itol 1/2, BiCGSTAB, QMR) on every generated system of every kind. The implication is judged whenever the answer is Ok: \
         iterations <= budget, x finite, ||b - A x||_2 (dense copy, double-double) <= tol*||b||*(1+1e-9) + 200(n+2)*eps*(it+1)*(||A||_F*Xmax + ||b||), Xmax first max(||x0||,||x||) and, only if that fails, measured by re-running the solver with budgets 1..it; \
         budget 0 or Ok(0) => x bitwise untouched; for Ok(it) with it = 1 mod 4 or it > 100 the call is repeated with budget it (must answer Ok(it) and the same x bit for bit) and with budget it-1 (must not report it-1 < count). Non-trivial: Ok with >= 2 iterations and n >= 5. distinct = distinct decoded choice sequence."
            .into()
    }
    fn assumptions(&self) -> Vec<String> {
        vec![
            "drift allowance constant 200(n+2): calibrated on the pinned tree over 1.8M systems with the largest iterate measured: worst observed (true - claimed)/(eps (it+1)(|A|_F Xmax + |b|)) = 24 (QMR, general nonsymmetric, n = 15), i.e. 1.4 (n+2); 200(n+2) leaves > 100x head-room while staying far below tol*|b| for all but the smallest tolerances".into(),
            "with ||b|| = 0 the residual is normalised by 1, as the solvers do".into(),
        ]
    }
    fn stream_len(&self, tier: Tier) -> usize {
        tier.pick(2400, 8200)
    }
    fn random_cases(&self, tier: Tier) -> usize {
        tier.pick(24_000, 300_000)
    }
    fn run(&self, case: &mut Case) -> Outcome {
        match run(case) {
            Ok(o) => o,
            Err(m) => Outcome::Fail(m),
        }
    }
}
