//! C10 — the root finder returns n finite values that are roots, for every degree-n input.

use crate::dd::Cdd;
use crate::engine::{catch, Case, Outcome, Prop, Tier};
use crate::refla::cabs;
use crate::stream::Src;
use ohsl::{Cmplx, Polynomial};

pub struct C10;

/// |p(z)| <= TAU * max|a_k| * max(1,|z|)^n ; calibration (repaired tree, 3M polynomials):
/// worst observed 3e-13 with refinement, 2e-8 without (degree 12, coefficient ratio 1e6).
const TAU_REFINE: f64 = 1e-11;
const TAU_PLAIN: f64 = 1e-6;
/// closed forms (degree <= 3) unrefined: worst observed 2.3e-8 (near-triple-root cubic, Cardano cancellation) over 15M cases
const TAU_CLOSED: f64 = 1e-5;
/// one-to-one matching tolerance for well-separated prescribed roots; worst observed 1.9e-11
const MATCH_TOL: f64 = 1e-8;
/// closed forms: |sum of values + a_(n-1)/a_n| <= VIETA_TOL * (sum|values| + |a_(n-1)/a_n|)
const VIETA_TOL: f64 = 1e-10;
/// statistic only: survey on the repaired tree (25M polynomials): every unpolished failure has a root >= 8.8x larger than a
/// later-found root deflated first, but passing cases with ratio < 3 reach 9.8e-7, i.e. the error tail is continuous.
const D11_RATIO: f64 = 3.0;

type C = (f64, f64);

fn horner_dd(coef: &[C], z: C) -> Cdd {
    let zz = Cdd::from(z);
    let mut p = Cdd::from(coef[coef.len() - 1]);
    for k in (0..coef.len() - 1).rev() {
        p = p * zz + Cdd::from(coef[k]);
    }
    p
}

/// expand prod (x - r_i) * lead in complex double-double, rounded to f64 coefficients
fn expand(roots: &[C], lead: C) -> Vec<C> {
    let mut c: Vec<Cdd> = vec![Cdd::from(lead)];
    for r in roots {
        let rr = Cdd::from(*r);
        let mut n = vec![Cdd::ZERO; c.len() + 1];
        for (k, ck) in c.iter().enumerate() {
            n[k + 1] = n[k + 1] + *ck;
            n[k] = n[k] - *ck * rr;
        }
        c = n;
    }
    c.iter().map(|v| v.to_c()).collect()
}

// ---------------------------------------------------------------- bit-exact replica of the driver
// (written with ohsl's own Cmplx operators, in the same order, so the trajectory is identical;
//  used ONLY as the input-level signature of known finding D7)
/// relative residual |p(x)| / sum |a_k||x|^k of the polynomial `a` at `x`
fn rel_residual(a: &[Cmplx], x: Cmplx) -> f64 {
    let m = a.len() - 1;
    let mut b = a[m];
    let mut s = a[m].abs();
    let abx = x.abs();
    for j in (0..m).rev() {
        b = x * b + a[j];
        s = s * abx + a[j].abs();
    }
    let r = b.abs() / s;
    if r.is_nan() {
        f64::INFINITY
    } else {
        r
    }
}

/// returns true when the call FAILED TO CONVERGE: it exhausted its iteration budget, or it
/// stopped (stagnation / non-finite step) at a point that is not a root of the polynomial
/// it was given (relative residual |p(x)| / sum|a_k||x|^k > 5e-13; converged calls end at ~1e-16..1e-14.
/// 5e-13 * (n+1) < TAU_REFINE, so a polished value that fails the check always counts as not converged)
fn laguer_replica(a: &[Cmplx], x: &mut Cmplx) -> bool {
    let exhausted = laguer_replica_inner(a, x);
    exhausted || !(rel_residual(a, *x) <= 5e-13)
}

fn laguer_replica_inner(a: &[Cmplx], x: &mut Cmplx) -> bool {
    const MR: usize = 8;
    const MT: usize = 10;
    const MAXIT: usize = MT * MR;
    const EPS: f64 = f64::EPSILON;
    let frac: [f64; MR + 1] = [0.0, 0.5, 0.25, 0.75, 0.13, 0.38, 0.62, 0.88, 1.0];
    let m = a.len() - 1;
    for iter in 1..MAXIT {
        let mut b = a[m];
        let mut err = b.abs();
        let mut d = Cmplx::new(0.0, 0.0);
        let mut f = Cmplx::new(0.0, 0.0);
        let abx = x.abs();
        for j in (0..m).rev() {
            f = *x * f + d;
            d = *x * d + b;
            b = *x * b + a[j];
            err = b.abs() + abx * err;
        }
        err *= EPS;
        if b.abs() <= err {
            return false;
        }
        let g = d / b;
        let g2 = g * g;
        let h = g2 - 2. * (f / b);
        let sq = ((h * (m as f64) - g2) * (m - 1) as f64).sqrt();
        let mut gp = g + sq;
        let gm = g - sq;
        let abp = gp.abs();
        let abm = gm.abs();
        if abp < abm {
            gp = gm;
        }
        if !(abp.is_finite() && abm.is_finite()) {
            return false;
        }
        let dx = if f64::max(abp, abm) > 0.0 { Cmplx::new(m as f64, 0.0) / gp } else { Cmplx::polar(1.0 + abx, iter as f64) };
        if !(dx.real.is_finite() && dx.imag.is_finite()) {
            return false;
        }
        let x1 = *x - dx;
        if *x == x1 {
            return false;
        }
        if iter % MT != 0 {
            *x = x1;
        } else {
            *x -= dx * frac[iter / MT];
        }
    }
    true
}

pub struct Signature {
    /// the replica reproduces the library's output bit for bit
    pub in_sync: bool,
    /// some Laguerre call failed to converge (budget exhausted, or stopped at a non-root)
    pub laguerre_failed: bool,
    /// unpolished deflation only: max over pairs (root removed earlier)/(root found later) of the moduli
    pub order_ratio: f64,
}

fn replica_signature(coef: &[C], refine: bool, unrefined: &[Cmplx], got: &[Cmplx]) -> Signature {
    let degree = coef.len() - 1;
    let a: Vec<Cmplx> = coef.iter().map(|c| Cmplx::new(c.0, c.1)).collect();
    let mut failed = false;
    let mut roots: Vec<Cmplx>;
    let mut order_ratio: f64 = 0.0;
    if degree > 3 {
        roots = vec![Cmplx::new(0.0, 0.0); degree];
        let mut ad = a.clone();
        let eps = f64::EPSILON;
        for j in (0..degree).rev() {
            let mut x = Cmplx::new(0.0, 0.0);
            let adv: Vec<Cmplx> = ad[..j + 2].to_vec();
            failed |= laguer_replica(&adv, &mut x);
            if x.imag.abs() <= 2.0 * eps * x.real.abs() {
                x = Cmplx::new(x.real, 0.0);
            }
            roots[j] = x;
            let mut b = ad[j + 1];
            for jj in (0..j + 1).rev() {
                let c = ad[jj];
                ad[jj] = b;
                b = x * b + c;
            }
        }
        // discovery order: roots[degree-1] first ... roots[0] last
        let mags: Vec<f64> = roots.iter().map(|z| z.abs()).collect();
        for j in 0..degree {
            for i in 0..j {
                if mags[i] > 0.0 {
                    order_ratio = order_ratio.max(mags[j] / mags[i]);
                } else if mags[j] > 0.0 {
                    order_ratio = f64::INFINITY;
                }
            }
        }
    } else {
        roots = unrefined.to_vec();
    }
    if refine {
        for j in 0..degree {
            failed |= laguer_replica(&a, &mut roots[j]);
        }
    }
    let same = roots.len() == got.len() && roots.iter().zip(got).all(|(p, q)| p.real.to_bits() == q.real.to_bits() && p.imag.to_bits() == q.imag.to_bits());
    Signature { in_sync: same, laguerre_failed: failed, order_ratio }
}

// ---------------------------------------------------------------- generators
struct Gen {
    coef: Vec<C>,
    real: bool,
    class: &'static str,
    prescribed: Option<Vec<C>>,
    well_separated: bool,
}

fn mag(src: &mut Src, lo: f64, hi: f64) -> f64 {
    10f64.powf(src.f64_in(lo, hi))
}

fn gen_from_roots(src: &mut Src, degree: usize, real: bool) -> Gen {
    let scale = if src.below(3) == 0 { mag(src, -2.0, 2.0) } else { 1.0 };
    let mut roots: Vec<C> = Vec::new();
    let mut special = false; // zero / repeated / clustered present
    while roots.len() < degree {
        let left = degree - roots.len();
        let kind = src.below(8);
        let last = roots.last().copied();
        match kind {
            0 => roots.push((scale * src.f64_in(-2.0, 2.0), 0.0)),
            1 if left >= 2 || !real => {
                let (a, b) = (scale * src.f64_in(-2.0, 2.0), scale * src.f64_in(0.1, 2.0));
                roots.push((a, b));
                if real {
                    roots.push((a, -b));
                }
            }
            2 if left >= 2 || !real => {
                let b = scale * src.f64_in(0.1, 2.0);
                roots.push((0.0, b));
                if real {
                    roots.push((0.0, -b));
                }
            }
            3 => {
                let mult = 1 + src.usize_below(3.min(left));
                for _ in 0..mult {
                    roots.push((0.0, 0.0));
                }
                special = true;
            }
            4 => {
                if let Some(r) = last {
                    if !real || r.1 == 0.0 {
                        roots.push(r);
                        special = true;
                    }
                }
            }
            5 => {
                if let Some(r) = last {
                    if !real || r.1 == 0.0 {
                        let d = scale * mag(src, -3.0, -1.0);
                        roots.push((r.0 + d, if real { 0.0 } else { r.1 + d * src.f64_in(-1.0, 1.0) }));
                        special = true;
                    }
                }
            }
            6 => roots.push((scale * (src.small_int(4) as f64), 0.0)),
            _ => roots.push((scale * mag(src, -1.0, 0.5) * if src.coin() { -1.0 } else { 1.0 }, 0.0)),
        }
    }
    roots.truncate(degree);
    // a truncated conjugate pair would make the coefficients complex: patch the last root
    if real {
        let unpaired: f64 = roots.iter().map(|r| r.1).sum();
        if unpaired != 0.0 {
            let k = roots.len() - 1;
            roots[k].1 = 0.0;
        }
    }
    let lead_mag = if src.below(3) == 0 { mag(src, -3.0, 3.0) } else { 1.0 };
    let lead: C = if real { (if src.coin() { -lead_mag } else { lead_mag }, 0.0) } else { let t = src.f64_in(0.0, 6.283); (lead_mag * t.cos(), lead_mag * t.sin()) };
    let mut coef = expand(&roots, lead);
    if real {
        for c in coef.iter_mut() {
            c.1 = 0.0;
        }
    }
    // well separated: all |r_i - r_j| >= 0.25*scale and all |r_i| in [0.25, 4]*scale or exactly... (no zero roots)
    // (a single root at zero is fine; repeated / clustered roots fail the pairwise-distance test)
    let mut sep = degree <= 6;
    for i in 0..roots.len() {
        let m = cabs(roots[i]);
        if m > 4.0 * scale {
            sep = false;
        }
        for j in 0..i {
            if cabs((roots[i].0 - roots[j].0, roots[i].1 - roots[j].1)) < 0.25 * scale {
                sep = false;
            }
        }
    }
    Gen { coef, real, class: if special { "roots:zero/repeated/clustered" } else { "roots:plain" }, prescribed: Some(roots), well_separated: sep }
}

fn gen_coeffs(src: &mut Src, degree: usize, real: bool) -> Gen {
    let spread = src.f64_in(0.0, 6.0);
    let mut coef: Vec<C> = Vec::with_capacity(degree + 1);
    let zero_rich = src.below(3) == 0;
    let axis_phases = !real && src.coin();
    for k in 0..=degree {
        let zero = k < degree && ((zero_rich && src.below(2) == 0) || (k == 0 && src.below(4) == 0));
        if zero {
            let _ = src.below(2);
            coef.push((0.0, 0.0));
            continue;
        }
        let m = 10f64.powf(src.f64_in(0.0, spread)) * src.f64_in(1.0, 9.99);
        let s = if src.coin() { -1.0 } else { 1.0 };
        if real {
            coef.push((s * m, 0.0));
        } else if axis_phases {
            // exactly real / purely imaginary complex coefficients
            coef.push(match src.below(4) {
                0 => (m, 0.0),
                1 => (0.0, m),
                2 => (-m, 0.0),
                _ => (0.0, -m),
            });
        } else {
            let t = src.f64_in(0.0, 6.283);
            coef.push((m * t.cos(), m * t.sin()));
        }
    }
    let vanishing = coef[..degree].iter().any(|c| *c == (0.0, 0.0));
    Gen { coef, real, class: if vanishing { "coeffs:vanishing" } else { "coeffs:dense" }, prescribed: None, well_separated: false }
}

fn run(case: &mut Case) -> Result<Outcome, String> {
    let real = case.src.coin();
    let refine = case.src.coin();
    let degree = case.src.usize_below(13);
    if degree == 0 {
        // a degree-0 polynomial is rejected
        let c = case.src.f64_in(-5.0, 5.0);
        case.class("degree 0");
        case.describe(|| format!("degree 0 constant {} real={} refine={}", c, real, refine));
        let r = if real { catch(|| Polynomial::<f64>::new(vec![c]).roots(refine).vec.len()) } else { catch(|| Polynomial::<Cmplx>::new(vec![Cmplx::new(c, 1.0)]).roots(refine).vec.len()) };
        return match r {
            Ok(n) => Err(format!("degree-0 polynomial was not rejected: roots() returned {} values", n)),
            Err(_) => Ok(Outcome::Pass),
        };
    }
    let g = if case.src.below(5) < 3 { gen_from_roots(&mut case.src, degree, real) } else { gen_coeffs(&mut case.src, degree, real) };
    let coef = g.coef.clone();
    let lead = coef[degree];
    if lead == (0.0, 0.0) || !coef.iter().all(|c| c.0.is_finite() && c.1.is_finite()) {
        return Ok(Outcome::Discard("degenerate leading coefficient"));
    }
    let amax = coef.iter().map(|c| cabs(*c)).fold(0.0, f64::max);
    let amin_nz = coef.iter().map(|c| cabs(*c)).filter(|v| *v > 0.0).fold(f64::INFINITY, f64::min);
    let path = if degree <= 3 { "closed-form" } else { "laguerre" };
    case.class(format!("deg={} {} refine={}", degree, g.class, refine));
    case.class(format!("{} {} {}", if g.real { "f64" } else { "cmplx" }, path, g.class));
    let inner_zero = coef[..degree].iter().any(|c| *c == (0.0, 0.0));
    if degree >= 4 || g.class == "roots:zero/repeated/clustered" || inner_zero {
        case.mark_nontrivial();
    }
    case.describe(|| format!("{} degree={} refine={} class={} coeffs(low..high)={:?} prescribed_roots={:?}", if g.real { "f64" } else { "cmplx" }, degree, refine, g.class, coef, g.prescribed));

    let call = |rf: bool| -> Result<Vec<Cmplx>, String> {
        if g.real {
            let p = Polynomial::<f64>::new(coef.iter().map(|c| c.0).collect());
            catch(|| p.roots(rf).vec)
        } else {
            let p = Polynomial::<Cmplx>::new(coef.iter().map(|c| Cmplx::new(c.0, c.1)).collect());
            catch(|| p.roots(rf).vec)
        }
    };
    let got = match call(refine) {
        Ok(r) => r,
        Err(e) => return Err(format!("roots({}) panicked on a degree-{} polynomial: {}", refine, degree, e)),
    };

    // ---- judge
    let mut failure: Option<String> = None;
    if got.len() != degree {
        failure = Some(format!("returned {} values for a degree-{} polynomial", got.len(), degree));
    }
    if failure.is_none() {
        for (k, z) in got.iter().enumerate() {
            if !(z.real.is_finite() && z.imag.is_finite()) {
                failure = Some(format!("root {} is not finite: {:?} (all: {:?})", k, z, got));
                break;
            }
        }
    }
    let tau = if refine { TAU_REFINE } else if degree <= 3 { TAU_CLOSED } else { TAU_PLAIN };
    // relative spread of the three roots of a cubic about their centroid, from the depressed form y^3 + P y + Q
    let near_triple = degree == 3 && {
        let a3 = coef[3];
        let (p, q, r) = (crate::refla::cdiv(coef[2], a3), crate::refla::cdiv(coef[1], a3), crate::refla::cdiv(coef[0], a3));
        let p2 = crate::refla::cmul(p, p);
        let bp = crate::refla::csub(q, (p2.0 / 3.0, p2.1 / 3.0));
        let p3 = crate::refla::cmul(p2, p);
        let pq = crate::refla::cmul(p, q);
        let bq = (2.0 * p3.0 / 27.0 - pq.0 / 3.0 + r.0, 2.0 * p3.1 / 27.0 - pq.1 / 3.0 + r.1);
        let spread = cabs(bp).sqrt().max(cabs(bq).cbrt());
        let kappa = spread / (cabs(p) / 3.0).max(1e-300);
        (1e-5..=3e-2).contains(&kappa)
    };
    let mut d17_hit = false;
    if failure.is_none() {
        for (k, z) in got.iter().enumerate() {
            let zc = (z.real, z.imag);
            let pz = horner_dd(&coef, zc).abs();
            let unit = amax * cabs(zc).max(1.0).powi(degree as i32);
            if degree <= 3 && !refine {
                crate::calib::note("c10 resid/unit closed-form unrefined", pz / unit, || format!("deg {} {} {:?}", degree, g.class, coef));
            }
            crate::calib::note(if refine { "c10 resid/unit refine" } else { "c10 resid/unit plain" }, pz / unit, || format!("deg {} {} {}", degree, g.class, if g.real { "f64" } else { "cmplx" }));
            if !(pz <= tau * unit) {
                // known finding D17: the unrefined closed form of a cubic whose three roots lie within 1e-5 .. 3e-2 of their
                // centroid (relative) - decided from the coefficients alone; gross errors (above 1e-2 units) are still failures
                if near_triple && !refine && pz <= 1e-2 * unit {
                    d17_hit = true;
                    continue;
                }
                failure = Some(format!("value {} = {:?} is not a root: |p(z)| = {:.3e} > {:.1e} * max|a_k| * max(1,|z|)^n = {:.3e} (all: {:?})", k, z, pz, tau, tau * unit, got));
                break;
            }
        }
    }
    // closed forms (degree 2, 3): the values must be ALL the roots - their sum is -a_{n-1}/a_n (Vieta); this
    // holds to rounding for the quadratic and Cardano formulas even when individual roots are ill-conditioned
    let certified_separated = g.well_separated || (degree == 2 && {
        // |z1 - z2| = |sqrt(b^2 - 4ac)| / |a| against the root magnitudes
        let (a, b, c) = (coef[2], coef[1], coef[0]);
        let disc = crate::refla::csub(crate::refla::cmul(b, b), crate::refla::cmul((4.0 * a.0, 4.0 * a.1), c));
        let sepd = cabs(disc).sqrt() / cabs(a);
        let size = cabs(b) / cabs(a) + (cabs(c) / cabs(a)).sqrt();
        sepd >= 0.25 * size && size > 0.0
    });
    if failure.is_none() && (degree == 2 || degree == 3) && certified_separated {
        let s = got.iter().fold((0.0, 0.0), |acc, z| (acc.0 + z.real, acc.1 + z.imag));
        let e = crate::refla::cdiv(coef[degree - 1], coef[degree]);
        let mag = got.iter().map(|z| cabs((z.real, z.imag))).sum::<f64>() + cabs(e);
        let err = cabs((s.0 + e.0, s.1 + e.1));
        if mag > 0.0 {
            crate::calib::note("c10 vieta-sum err/mag (deg<=3)", err / mag, || format!("deg {} refine {} {:?}", degree, refine, coef));
        }
        if !(err <= VIETA_TOL * mag + 1e-300) {
            failure = Some(format!("the returned values are not all the roots: their sum {:?} differs from -a_(n-1)/a_n = ({:e}, {:e}) (values: {:?})", s, -e.0, -e.1, got));
        }
    }
    if failure.is_none() && g.well_separated {
        if let Some(pr) = &g.prescribed {
            // one-to-one matching (greedy is exact here: tolerance << separation)
            let mut used = vec![false; degree];
            for r in pr {
                let mut best = None;
                let mut bd = f64::INFINITY;
                for (k, z) in got.iter().enumerate() {
                    let d = cabs((z.real - r.0, z.imag - r.1));
                    if !used[k] && d < bd {
                        bd = d;
                        best = Some(k);
                    }
                }
                crate::calib::note("c10 match dist/(1+|r|)", bd / (1.0 + cabs(*r)), || format!("deg {} refine {}", degree, refine));
                match best {
                    Some(k) if bd <= MATCH_TOL * (1.0 + cabs(*r)) => used[k] = true,
                    _ => {
                        failure = Some(format!("no returned value within {:.0e} of the prescribed well-separated root {:?} (nearest unused at distance {:.3e}); returned {:?}", MATCH_TOL, r, bd, got));
                        break;
                    }
                }
            }
            case.class("matched against prescribed roots");
        }
    }
    if crate::calib::on() && failure.is_none() && !refine && degree >= 4 {
        let sig = replica_signature(&coef, refine, &[], &got);
        if sig.in_sync && sig.order_ratio < D11_RATIO {
            let worst = got.iter().map(|z| horner_dd(&coef, (z.real, z.imag)).abs() / (amax * cabs((z.real, z.imag)).max(1.0).powi(degree as i32))).fold(0.0, f64::max);
            crate::calib::note("c10 resid/unit plain with deflation-order ratio < 3", worst, || format!("deg {}", degree));
        }
        if !sig.in_sync {
            crate::calib::note("c10 replica out of sync on a passing case (count)", 1.0, || format!("{:?}", coef));
        }
    }
    if failure.is_none() && d17_hit && case.findings.is_known("C10", "D17-cardano-near-triple-cluster") {
        return Ok(Outcome::Known(
            "D17-cardano-near-triple-cluster",
            "refine = false, degree 3, the three roots within 1e-5 .. 3e-2 (relative) of their centroid: the closed form (Cardano with d0, d1 formed by cancelling subtractions) returns values with a normwise backward error of 1e-5 .. 1e-4 - with refinement the same inputs reach 1e-16".into(),
        ));
    }
    let Some(msg) = failure else { return Ok(Outcome::Pass) };

    // ---- a failing case: does its INPUT carry the signature of a known finding?
    let _ = amin_nz;
    let unrefined = if degree <= 3 && refine { call(false).unwrap_or_default() } else { Vec::new() };
    let sig = replica_signature(&coef, refine, &unrefined, &got);
    if sig.in_sync && sig.laguerre_failed && case.findings.is_known("C10", "D7-laguerre-nonconvergence") {
        return Ok(Outcome::Known(
            "D7-laguerre-nonconvergence",
            "a Laguerre call (started from x = 0 in the deflation stage, or polishing) does not converge - limit cycle exhausting its 79 iterations or wild oscillation ending in stagnation - and its last iterate, not a root, is returned silently".into(),
        ));
    }
    if sig.in_sync && !sig.laguerre_failed && !refine && degree >= 4 && case.findings.is_known("C10", "D11-unpolished-deflation") {
        return Ok(Outcome::Known(
            "D11-unpolished-deflation",
            format!("refine = false, degree >= 4: every Laguerre call converged on its deflated polynomial, but forward deflation without polishing amplified rounding errors (largest removed-before-smaller modulus ratio {:.1}) and some returned value has backward error above 1e-6 (up to O(1))", sig.order_ratio),
        ));
    }
    Err(msg)
}

impl Prop for C10 {
    fn id(&self) -> &'static str {
        "C10"
    }
    fn rule(&self) -> String {
        "per case: coefficient type in {f64, Complex<f64>}, refine in {false,true}, degree 0..=12; 3/5 polynomials expanded (complex double-double) from prescribed roots drawn from \
         {real, conjugate pair, purely imaginary pair, zero with multiplicity 1..3, repeat of the previous root, cluster at distance 1e-3..1e-1, small integers, magnitudes 0.1..3} times a scale 1e-2..1e2, \
         leading coefficient of either sign / any phase and magnitude 1e-3..1e3; 2/5 random coefficients of mixed sign with magnitude ratio up to 1e6 and a menu that zeroes the constant and inner coefficients (complex coefficients: random phases, or - half of the time - exactly real / purely imaginary values). \
         Oracle: exactly n finite values, each with |p(z)| (Horner in complex double-double on the actual f64 coefficients) <= tau*max|a_k|*max(1,|z|)^n, tau = 1e-11 refined / 1e-6 unrefined Laguerre path / 1e-5 unrefined closed forms (degree <= 3); \
         for prescribed roots with pairwise separation >= 0.25*scale, magnitudes <= 4*scale and degree <= 6 a one-to-one matching within 1e-8*(1+|r|); for degree 2 and 3 with certified well-separated roots (prescribed, or |z1-z2| >= 0.25(|b/a|+sqrt|c/a|) from the discriminant) the sum of the values equals -a_(n-1)/a_n within 1e-10 relative (all roots present); degree 0 must panic. \
         A failing case is attributed to a known finding only if a bit-exact replica of the Laguerre/deflation driver reproduces the library's output AND (D7) some Laguerre call fails to converge (budget exhausted or stops at a non-root of the polynomial it was given), or (D11) refine = false, degree >= 4 and all Laguerre calls converged on their deflated polynomials (unpolished forward deflation). Closed-form results (degree <= 3, unrefined) and any output the replica does not reproduce are always judged. \
         Non-trivial: degree >= 4, or a zero/repeated/clustered root, or a vanishing non-leading coefficient. distinct = distinct decoded choice sequence."
            .into()
    }
    fn assumptions(&self) -> Vec<String> {
        vec![
            "residual tolerance constants calibrated on the repaired tree with >= 100x head-room (see source)".into(),
            "inputs matching the D7 / D11 signatures are excluded from judgement (counted as known-finding hits); other defects confined to that class are masked".into(),
        ]
    }
    fn stream_len(&self, _tier: Tier) -> usize {
        120
    }
    fn random_cases(&self, tier: Tier) -> usize {
        tier.pick(200_000, 5_000_000)
    }
    fn run(&self, case: &mut Case) -> Outcome {
        match run(case) {
            Ok(o) => o,
            Err(m) => Outcome::Fail(m),
        }
    }
}
