//! C04 — a banded matrix behaves exactly like the dense matrix with the same band.

use super::util::*;
use crate::dd::Cdd;
use crate::engine::{catch, Case, Outcome, Prop, Tier};
use crate::gen::{fmt_mat, Elem};
use crate::rat::Rat;
use crate::refla::{self, M};
use crate::stream::{raw_for, Src};
use ohsl::{Banded, Cmplx, Vector};

pub struct C04;

/// same constants as C01/C02 (calibrated there; worst ratios observed here are recorded in DESIGN.md)
const BE_C: f64 = 100.0;
const DET_C: f64 = 16.0;

const PATTERNS: [&str; 7] = ["mixed", "negative-diagonal", "zero-diagonal", "tiny-subdiagonal", "singular", "positive", "continuous"];

fn in_band(i: usize, j: usize, m1: usize, m2: usize) -> bool {
    j <= i + m2 && i <= j + m1
}

fn build<T: Elem>(dense: &M<T>, n: usize, m1: usize, m2: usize, pad: T) -> Banded<T> {
    let mut b = Banded::<T>::new(n, m1, m2, pad);
    for i in 0..n {
        for j in 0..n {
            if in_band(i, j, m1, m2) {
                b[(i, j)] = dense[i][j];
            }
        }
    }
    b
}

fn gen_band<T: Elem>(src: &mut Src, n: usize, m1: usize, m2: usize, pattern: &str) -> M<T> {
    let z = T::from_int(0);
    let mut a: M<T> = vec![vec![z; n]; n];
    for i in 0..n {
        for j in 0..n {
            if !in_band(i, j, m1, m2) {
                continue;
            }
            a[i][j] = match pattern {
                "continuous" => T::cont(src),
                "positive" => {
                    let v = T::small_nz(src);
                    if T::EXACT || v.to_c().1 == 0.0 {
                        v.abs()
                    } else {
                        v
                    }
                }
                _ => T::small(src),
            };
        }
    }
    match pattern {
        "negative-diagonal" => {
            for i in 0..n {
                a[i][i] = -T::from_int(1 + src.below(6) as i64);
            }
        }
        "zero-diagonal" => {
            for i in 0..n {
                a[i][i] = z;
                if i + 1 < n && m1 >= 1 {
                    a[i + 1][i] = T::small_nz(src);
                }
                if i + 1 < n && m2 >= 1 && a[i][i + 1].is_zero_e() {
                    a[i][i + 1] = T::small_nz(src);
                }
            }
        }
        "tiny-subdiagonal" => {
            for i in 0..n {
                a[i][i] = -(T::from_int(1 + src.below(3) as i64));
                if i + 1 < n && m1 >= 1 {
                    // tiny positive entry below an O(1) negative diagonal
                    a[i + 1][i] = if T::EXACT { T::from_int(1).scale2(-10) } else { T::from_int(1).scale2(-(30 + src.below(30) as i32)) };
                }
            }
        }
        "pivot-order" => {
            for j in 0..n {
                let rows: Vec<usize> = (0..n).filter(|&i| i >= j && in_band(i, j, m1, m2)).collect();
                let perm = src.permutation(rows.len());
                for (k, &i) in rows.iter().enumerate() {
                    // exact types: 1, 2, 3, ...; floats: 1, 2^-18, 2^-36, ... (a pivot that is not the largest
                    // candidate then shows as element growth of 2^18 and more)
                    let mag = if T::EXACT { T::from_int(1 + perm[k] as i64) } else { T::from_int(1).scale2(-18 * perm[k] as i32) };
                    a[i][j] = if src.coin() { mag } else { -mag };
                }
            }
        }
        "singular" => match src.below(3) {
            0 => {
                let c = src.usize_below(n);
                for i in 0..n {
                    a[i][c] = z;
                }
            }
            1 => {
                let r = src.usize_below(n);
                for j in 0..n {
                    a[r][j] = z;
                }
            }
            _ => {
                // two adjacent columns supported on the same rows made proportional
                if n >= 2 {
                    let c = src.usize_below(n - 1);
                    let f = T::small_nz(src);
                    for i in 0..n {
                        if in_band(i, c, m1, m2) && in_band(i, c + 1, m1, m2) {
                            a[i][c + 1] = a[i][c] * f;
                        } else {
                            a[i][c] = z;
                            a[i][c + 1] = z;
                        }
                    }
                } else {
                    a[0][0] = z;
                }
            }
        },
        _ => {}
    }
    a
}

fn band_entries_eq<T: Elem>(b: &Banded<T>, e: &M<T>, n: usize, m1: usize, m2: usize, what: &str) -> Result<(), String> {
    if b.size() != n || b.size_below() != m1 || b.size_above() != m2 {
        return Err(format!("{}: (n,m1,m2) = ({},{},{}) expected ({},{},{})", what, b.size(), b.size_below(), b.size_above(), n, m1, m2));
    }
    for i in 0..n {
        for j in 0..n {
            if in_band(i, j, m1, m2) && !(b[(i, j)] == e[i][j]) {
                return Err(format!("{}: entry ({},{}) = {:?}, expected {:?}", what, i, j, b[(i, j)], e[i][j]));
            }
        }
    }
    Ok(())
}

fn map_band<T: Elem>(a: &M<T>, n: usize, m1: usize, m2: usize, f: impl Fn(T) -> T) -> M<T> {
    (0..n).map(|i| (0..n).map(|j| if in_band(i, j, m1, m2) { f(a[i][j]) } else { a[i][j] }).collect()).collect()
}
fn zip_band<T: Elem>(a: &M<T>, d: &M<T>, f: impl Fn(T, T) -> T) -> M<T> {
    a.iter().zip(d).map(|(r, s)| r.iter().zip(s).map(|(x, y)| f(*x, *y)).collect()).collect()
}

fn run_t<T: Elem>(case: &mut Case) -> Result<Outcome, String> {
    let n = 1 + case.src.usize_below(10);
    let m1 = case.src.usize_below(n);
    let m2 = case.src.usize_below(n);
    let mut pattern = PATTERNS[case.src.below(if T::EXACT { 6 } else { 7 }) as usize];
    // half of the "mixed" cases: all candidates of a pivot column have pairwise different magnitudes in a random
    // order, so that the pivot search is decided by comparing every candidate with the running maximum
    if pattern == "mixed" && case.src.coin() {
        pattern = "pivot-order";
    }
    let a0 = gen_band::<T>(&mut case.src, n, m1, m2, pattern);
    // float types: the whole system may live at a very small or very large scale (exact power of two)
    let gk: i32 = if !T::EXACT && case.src.below(3) == 0 { case.src.small_int(80) as i32 } else { 0 };
    let a: M<T> = if gk == 0 { a0.clone() } else { a0.iter().map(|r| r.iter().map(|v| v.scale2(gk)).collect()).collect() };
    if gk != 0 {
        case.class("globally scaled by 2^k, |k| <= 80");
    }
    let pad1 = T::small(&mut case.src);
    let mut pad2 = T::small_nz(&mut case.src) + T::from_int(7);
    if pad2.same(&pad1) {
        pad2 = pad2 + T::from_int(1);
    }
    let x: Vec<T> = (0..n).map(|_| if pattern == "continuous" { T::cont(&mut case.src) } else { T::small(&mut case.src) }).collect();
    let rhs: Vec<T> = (0..n).map(|_| if pattern == "continuous" { T::cont(&mut case.src) } else { T::small(&mut case.src) }).collect();
    let z = T::from_int(0);
    case.class(format!("{}:{}", T::NAME, pattern));
    case.class(format!("bandwidths {}", if m1 == m2 { "m1==m2" } else if m1 < m2 { "m1<m2" } else { "m1>m2" }));
    case.describe(|| format!("{} n={} m1={} m2={} pattern={} pads=({:?},{:?}) A={} x={:?} b={:?}", T::NAME, n, m1, m2, pattern, pad1, pad2, fmt_mat(&a), x, rhs));

    let b1 = build(&a, n, m1, m2, pad1);
    let b2 = build(&a, n, m1, m2, pad2);
    let snap1 = from_matrix(b1.compact());
    band_entries_eq(&b1, &a, n, m1, m2, "index read-back")?;
    band_entries_eq(&b2, &a, n, m1, m2, "index read-back (second padding)")?;

    // ---- matrix-vector product
    let xv: Vector<T> = to_vector(&x);
    let p1 = &b1 * &xv;
    let p2 = &b2 * &xv;
    let p3 = b1.clone() * xv.clone();
    if p1.vec.len() != n {
        return Err(format!("product has length {}", p1.vec.len()));
    }
    for i in 0..n {
        if !p1.vec[i].same(&p2.vec[i]) {
            return Err(format!("product depends on the padding value: row {}: {:?} vs {:?}", i, p1.vec[i], p2.vec[i]));
        }
        if !p1.vec[i].same(&p3.vec[i]) {
            return Err(format!("consuming product differs from borrowed product in row {}", i));
        }
    }
    if T::EXACT {
        let e = refla::matvec(&a, &x, z);
        if p1.vec != e {
            return Err(format!("&B * &v = {:?}, dense product {:?}", p1.vec, e));
        }
    } else {
        for i in 0..n {
            let mut s = Cdd::ZERO;
            let mut mag = 0.0;
            for j in 0..n {
                s = s + Cdd::from(a[i][j].to_c()) * Cdd::from(x[j].to_c());
                mag += refla::cabs(a[i][j].to_c()) * refla::cabs(x[j].to_c());
            }
            let err = refla::cabs(refla::csub(p1.vec[i].to_c(), s.to_c()));
            if !(err <= 4.0 * (m1 + m2 + 2) as f64 * EPS * mag) {
                return Err(format!("&B * &v row {}: {:?} vs dense {:?} (err {:.2e})", i, p1.vec[i], s.to_c(), err));
            }
        }
    }

    // ---- exact facts about the matrix
    let ac = mat_c(&a);
    let ac0 = mat_c(&a0);
    let info = refla::gepp(&ac0, None);
    let mut exact = mat_exact(&a0).map(|ax| refla::det_rank(&ax));
    if crate::rat::overflowed() {
        if T::EXACT {
            return Ok(Outcome::Discard("rat-overflow"));
        }
        // float data whose exact determinant does not fit: fall back to the numerical oracle
        crate::rat::reset_overflow();
        exact = None;
        case.class("exact-oracle-overflow (numerical oracle used)");
    }
    let singular = match &exact {
        Some((_, rank)) => Some(*rank < n),
        None => None,
    };
    let has_neg = (0..n).any(|i| (0..=i).any(|j| in_band(i, j, m1, m2) && (a[i][j].to_c().0 < 0.0 || a[i][j].to_c().1 < 0.0)));
    if n >= 3 && m1 >= 1 && info.exchanges >= 1 && has_neg {
        case.mark_nontrivial();
    }
    case.class(format!("exchanges={}", info.exchanges.min(4)));

    // ---- determinant
    let d1 = match catch(|| b1.det()) {
        Ok(d) => d,
        Err(e) => return Err(format!("det() panicked: {}", e)),
    };
    let d2 = match catch(|| b2.det()) {
        Ok(d) => d,
        Err(e) => return Err(format!("det() panicked (second padding): {}", e)),
    };
    if !d1.same(&d2) && !(d1.to_c() == d2.to_c()) {
        return Err(format!("det depends on the padding value: {:?} vs {:?}", d1, d2));
    }
    if let Some((det_x, _)) = &exact {
        if T::EXACT {
            if d1.to_exact().as_ref() != Some(det_x) {
                return Err(format!("det = {:?}, exact determinant {:?}", d1, det_x));
            }
        } else {
            if !d1.finite() {
                return Err(format!("det is not finite: {:?} (exact {:?})", d1, det_x));
            }
            // undo the global scaling exactly: det(2^k A) = 2^(k n) det(A)
            let mut dsc = d1;
            let mut left = -(gk as i64) * n as i64;
            while left != 0 {
                let step = left.clamp(-900, 900);
                dsc = dsc.scale2(step as i32);
                left -= step;
            }
            let err = refla::cabs(refla::csub(dsc.to_c(), T::x_to_c(det_x)));
            // (pivot-order matrices have rows of very different size: see util::hadamard_gepp)
            let unit = (n * n * n) as f64 * EPS * info.growth.max(1.0) * if pattern == "pivot-order" { hadamard_gepp(&ac0) } else { hadamard(&ac0) };
            if unit > 0.0 {
                crate::calib::note("c04.det err/(n^3 eps rho H)", err / unit, || format!("{} {} n={}", T::NAME, pattern, n));
            }
            if !(err <= DET_C * unit) {
                return Err(format!("det = {:?} differs from exact {:?} by {:.3e} > {:.3e}", d1, T::x_to_c(det_x), err, DET_C * unit));
            }
        }
    }

    // ---- solve
    let nonsingular = match singular {
        Some(s) => !s,
        None => matches!(cond_inf(&ac0), Some(k) if k <= 1e10),
    };
    if nonsingular && (T::EXACT || matches!(cond_inf(&ac0), Some(k) if k <= 1e10)) {
        case.class("solve");
        let bv = to_vector(&rhs);
        let s1 = match catch(|| b1.solve(&bv)) {
            Ok(v) => v.vec,
            Err(e) => return Err(format!("solve() panicked on a nonsingular system: {}", e)),
        };
        let s2 = match catch(|| b2.solve(&bv)) {
            Ok(v) => v.vec,
            Err(e) => return Err(format!("solve() panicked (second padding): {}", e)),
        };
        if s1.len() != n {
            return Err(format!("solution has length {}", s1.len()));
        }
        for i in 0..n {
            if !s1[i].same(&s2[i]) && !(s1[i] == s2[i]) {
                return Err(format!("solution depends on the padding value: component {}: {:?} vs {:?}", i, s1[i], s2[i]));
            }
        }
        if T::EXACT {
            let ax = refla::matvec(&a, &s1, z);
            if ax != rhs {
                return Err(format!("solve: A*x != b exactly; x = {:?}, A*x = {:?}", s1, ax));
            }
        } else {
            if !all_finite(&s1) {
                return Err(format!("solve returned a non-finite component: {:?}", s1));
            }
            let be = refla::backward_error(&ac, &vec_c(&s1), &vec_c(&rhs));
            let unit = n as f64 * EPS * info.growth.max(1.0);
            crate::calib::note("c04.be/(n eps rho)", be / unit, || format!("{} {} n={} m1={} m2={}", T::NAME, pattern, n, m1, m2));
            if !(be <= BE_C * unit) {
                return Err(format!("solve: normwise backward error {:.3e} > bound {:.3e}; x = {:?}", be, BE_C * unit, s1));
            }
        }
        if bv.vec.iter().zip(&rhs).any(|(p, q)| !p.same(q)) {
            return Err("solve modified its right-hand side".into());
        }
    } else {
        case.class("no-solve (singular or ill-conditioned)");
    }
    if !same_mat(&from_matrix(b1.compact()), &snap1) {
        return Err("product/det/solve modified the banded matrix".into());
    }

    // ---- arithmetic on the in-band entries
    let d = gen_band::<T>(&mut case.src, n, m1, m2, if pattern == "continuous" { "continuous" } else { "mixed" });
    let bd = build(&d, n, m1, m2, pad2);
    let s = T::small(&mut case.src);
    let snz = T::small_nz(&mut case.src);
    let exact_arith = T::EXACT || (pattern != "continuous" && gk == 0);
    if exact_arith {
        band_entries_eq(&(&b1 + &bd), &zip_band(&a, &d, |p, q| p + q), n, m1, m2, "&B + &D")?;
        band_entries_eq(&(b1.clone() + bd.clone()), &zip_band(&a, &d, |p, q| p + q), n, m1, m2, "B + D")?;
        band_entries_eq(&(&b1 - &bd), &zip_band(&a, &d, |p, q| p - q), n, m1, m2, "&B - &D")?;
        band_entries_eq(&(&b1 + &b1), &zip_band(&a, &a, |p, q| p + q), n, m1, m2, "&B + &B (same object)")?;
        band_entries_eq(&(&b1 - &b1), &zip_band(&a, &a, |p, q| p - q), n, m1, m2, "&B - &B (same object)")?;
        band_entries_eq(&(b1.clone() - bd.clone()), &zip_band(&a, &d, |p, q| p - q), n, m1, m2, "B - D")?;
        band_entries_eq(&(-&b1), &map_band(&a, n, m1, m2, |p| -p), n, m1, m2, "-&B")?;
        band_entries_eq(&(-b1.clone()), &map_band(&a, n, m1, m2, |p| -p), n, m1, m2, "-B")?;
        band_entries_eq(&(&b1 * s), &map_band(&a, n, m1, m2, |p| p * s), n, m1, m2, "&B * s")?;
        band_entries_eq(&(b1.clone() * s), &map_band(&a, n, m1, m2, |p| p * s), n, m1, m2, "B * s")?;
        if !T::EXACT {
            let bs = &b1 * snz;
            band_entries_eq(&(&bs / snz), &a, n, m1, m2, "(&B * s) / s")?;
            let mut t = bs.clone();
            t /= snz;
            band_entries_eq(&t, &a, n, m1, m2, "(B * s) /= s")?;
        }
        if T::EXACT {
            band_entries_eq(&(&b1 / snz), &map_band(&a, n, m1, m2, |p| p / snz), n, m1, m2, "&B / s")?;
            band_entries_eq(&(b1.clone() / snz), &map_band(&a, n, m1, m2, |p| p / snz), n, m1, m2, "B / s")?;
        }
        let mut t = b1.clone();
        t += &bd;
        band_entries_eq(&t, &zip_band(&a, &d, |p, q| p + q), n, m1, m2, "B += &D")?;
        let mut t = b1.clone();
        t += bd.clone();
        band_entries_eq(&t, &zip_band(&a, &d, |p, q| p + q), n, m1, m2, "B += D")?;
        let mut t = b1.clone();
        t -= &bd;
        band_entries_eq(&t, &zip_band(&a, &d, |p, q| p - q), n, m1, m2, "B -= &D")?;
        let mut t = b1.clone();
        t -= bd.clone();
        band_entries_eq(&t, &zip_band(&a, &d, |p, q| p - q), n, m1, m2, "B -= D")?;
        let mut t = b1.clone();
        t *= s;
        band_entries_eq(&t, &map_band(&a, n, m1, m2, |p| p * s), n, m1, m2, "B *= s")?;
        if T::EXACT {
            let mut t = b1.clone();
            t /= snz;
            band_entries_eq(&t, &map_band(&a, n, m1, m2, |p| p / snz), n, m1, m2, "B /= s")?;
        }
        let mut t = b1.clone();
        t += s;
        band_entries_eq(&t, &map_band(&a, n, m1, m2, |p| p + s), n, m1, m2, "B += c")?;
        let mut t = b1.clone();
        t -= s;
        band_entries_eq(&t, &map_band(&a, n, m1, m2, |p| p - s), n, m1, m2, "B -= c")?;
        // fill_band / fill
        let band = case.src.range(-(m1 as i64), m2 as i64);
        let mut t = b1.clone();
        t.fill_band(band as isize, s);
        let e: M<T> = (0..n).map(|i| (0..n).map(|j| if j as i64 - i as i64 == band { s } else { a[i][j] }).collect()).collect();
        band_entries_eq(&t, &e, n, m1, m2, &format!("fill_band({})", band))?;
        let mut t = b1.clone();
        t.fill(s);
        band_entries_eq(&t, &vec![vec![s; n]; n], n, m1, m2, "fill")?;
        band_entries_eq(&b1, &a, n, m1, m2, "operand after by-reference operators")?;
        band_entries_eq(&bd, &d, n, m1, m2, "second operand after by-reference operators")?;
    }
    Ok(Outcome::Pass)
}

impl Prop for C04 {
    fn id(&self) -> &'static str {
        "C04"
    }
    fn rule(&self) -> String {
        "stream prefix (element type in {rat,f64,cmplx}, n in 1..=10, m1 in 0..n, m2 in 0..n): all 3*385 configurations are enumerated in every run \
         (several random value tails each) and additionally sampled at random; value pattern in {mixed sign, pivot-order (pairwise different magnitudes among the candidates of every pivot column, random order and signs), negative diagonal, zero diagonal with non-zero \
         sub-diagonal, tiny positive sub-diagonal under an O(1) negative diagonal, singular (zero column / zero row / proportional columns), positive, continuous(floats)}; \
         every matrix is built twice with two different padding values; float systems are additionally scaled as a whole by 2^k, |k| <= 80, with probability 1/3. Index read-back, &B*&v and B*v vs the dense product, det vs the exact determinant \
         (fraction elimination), solve on every nonsingular system (A x == b exactly over rat; backward error bound over floats), independence of the padding, \
         operand snapshots, all arithmetic operators and compound assignments, fill_band, fill. \
         Non-trivial: n >= 3, m1 >= 1, the reference partial-pivoting elimination exchanges rows at least once and the lower band has a negative entry; \
         distinct = distinct decoded choice sequence."
            .into()
    }
    fn assumptions(&self) -> Vec<String> {
        vec![
            "exact oracle in i128 rationals (Gaussian rationals for cmplx); overflowing cases discarded".into(),
            format!("float bounds: backward error <= {}*n*eps*max(1,rho_ref); determinant error <= {}*n^3*eps*max(1,rho_ref)*prod(row norms)", BE_C, DET_C),
            "float systems judged for solve only when the reference condition number is <= 1e10".into(),
        ]
    }
    fn stream_len(&self, _tier: Tier) -> usize {
        700
    }
    fn random_cases(&self, tier: Tier) -> usize {
        tier.pick(100_000, 1_500_000)
    }
    fn enum_prefixes(&self, _tier: Tier) -> Vec<Vec<u32>> {
        let mut v = Vec::new();
        for ty in 0..3 {
            for n in 1..=10u32 {
                for m1 in 0..n {
                    for m2 in 0..n {
                        v.push(vec![raw_for(ty, 3), raw_for(n - 1, 10), raw_for(m1, n), raw_for(m2, n)]);
                    }
                }
            }
        }
        v
    }
    fn enum_reps(&self, tier: Tier) -> usize {
        tier.pick(40, 400)
    }
    fn enum_note(&self, _tier: Tier) -> Option<String> {
        Some("all (type, n, m1, m2) with n in 1..=10, 0 <= m1,m2 < n: 3 x 385 configurations; value patterns and values random per repetition".into())
    }
    fn run(&self, case: &mut Case) -> Outcome {
        let r = match case.src.below(3) {
            0 => run_t::<Rat>(case),
            1 => run_t::<f64>(case),
            _ => run_t::<Cmplx>(case),
        };
        match r {
            Ok(o) => o,
            Err(m) => Outcome::Fail(m),
        }
    }
}
