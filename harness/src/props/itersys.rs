//! Shared by C08/C09: generated sparse systems, calling the five iterative
//! solver entry points, double-double residuals, textbook reference solvers.

use crate::dd::Dd;
use crate::stream::Src;
use ohsl::{Sparse, Vector};

pub type D = Vec<Vec<f64>>;

pub const SOLVERS: [&str; 5] = ["cg", "bicg-itol1", "bicg-itol2", "bicgstab", "qmr"];

pub fn to_sparse(a: &D, src: &mut Src) -> Sparse<f64> {
    let n = a.len();
    let mut t: Vec<(usize, usize, f64)> = Vec::new();
    for i in 0..n {
        for j in 0..a[i].len() {
            if a[i][j] != 0.0 {
                t.push((i, j, a[i][j]));
            }
        }
    }
    // any triplet order
    let p = src.permutation(t.len().min(64));
    let mut tt: Vec<(usize, usize, f64)> = Vec::with_capacity(t.len());
    for &i in &p {
        tt.push(t[i]);
    }
    tt.extend_from_slice(&t[p.len()..]);
    let cols = if n == 0 { 0 } else { a[0].len() };
    Sparse::from_triplets(n, cols, &mut tt)
}

pub fn call(solver: usize, sp: &Sparse<f64>, b: &Vector<f64>, x: &mut Vector<f64>, max_iter: usize, tol: f64) -> Result<usize, f64> {
    match solver {
        0 => sp.solve_cg(b, x, max_iter, tol),
        1 => sp.solve_bicg(b, x, max_iter, tol, 1),
        2 => sp.solve_bicg(b, x, max_iter, tol, 2),
        3 => sp.solve_bicgstab(b, x, max_iter, tol),
        _ => sp.solve_qmr(b, x, max_iter, tol),
    }
}

pub fn matvec(a: &D, x: &[f64]) -> Vec<f64> {
    a.iter().map(|r| r.iter().zip(x).map(|(p, q)| p * q).sum()).collect()
}
pub fn tmatvec(a: &D, x: &[f64]) -> Vec<f64> {
    let n = a.len();
    let mut out = vec![0.0; n];
    for i in 0..n {
        for j in 0..n {
            out[j] += a[i][j] * x[i];
        }
    }
    out
}
pub fn dot(a: &[f64], b: &[f64]) -> f64 {
    a.iter().zip(b).map(|(p, q)| p * q).sum()
}
/// 2-norm, safe against overflow/underflow of the squares (entries are scaled by a power of two first); NaN if an
/// entry is NaN, infinite if one is infinite
pub fn norm2(a: &[f64]) -> f64 {
    norm2_iter(a.iter().copied())
}
fn norm2_iter(it: impl Iterator<Item = f64> + Clone) -> f64 {
    let mut m = 0.0f64;
    for v in it.clone() {
        if v.is_nan() {
            return f64::NAN;
        }
        m = m.max(v.abs());
    }
    if m == 0.0 || m.is_infinite() {
        return m;
    }
    // power of two near m: exact scaling
    let e = m.log2().floor() as i32;
    let (h1, h2) = (e / 2, e - e / 2);
    let down = |v: f64| v * 2f64.powi(-h1) * 2f64.powi(-h2);
    let mut s = Dd::ZERO;
    for v in it {
        let w = down(v);
        s = s + Dd::prod(w, w);
    }
    s.to_f64().sqrt() * 2f64.powi(h1) * 2f64.powi(h2)
}
pub fn frob(a: &D) -> f64 {
    let flat: Vec<f64> = a.iter().flatten().copied().collect();
    norm2(&flat)
}
/// ||b - A x||_2 with the residual evaluated in double-double
pub fn true_residual(a: &D, x: &[f64], b: &[f64]) -> f64 {
    let mut tot = Dd::ZERO;
    for (i, row) in a.iter().enumerate() {
        let mut s = Dd::from(b[i]);
        for (j, v) in row.iter().enumerate() {
            s = s - Dd::prod(*v, x[j]);
        }
        if !s.is_finite() {
            return f64::INFINITY;
        }
        tot = tot + s * s;
    }
    tot.to_f64().sqrt()
}

/// sparse random fill helper: entry with probability dens/8
fn sprinkle(src: &mut Src, dens: u32, scale: f64) -> f64 {
    if src.below(8) < dens {
        src.f64_in(-scale, scale)
    } else {
        0.0
    }
}

pub const KINDS: [&str; 7] = ["spd-dominant", "spd-btb", "sym-indefinite", "sdd-nonsym-posdiag", "sdd-nonsym-mixeddiag", "general-nonsym", "singular"];

/// Generate an n x n system matrix of the given kind (index into KINDS).
pub fn gen_matrix(src: &mut Src, n: usize, kind: usize) -> D {
    let dens = 1 + src.below(7);
    let mut a = vec![vec![0.0; n]; n];
    match KINDS[kind] {
        "spd-dominant" | "sym-indefinite" => {
            for i in 0..n {
                for j in 0..i {
                    let v = sprinkle(src, dens, 1.0);
                    a[i][j] = v;
                    a[j][i] = v;
                }
            }
            let slack = src.f64_in(1.02, 3.0);
            for i in 0..n {
                let s: f64 = (0..n).filter(|&j| j != i).map(|j| a[i][j].abs()).sum();
                let d = if s == 0.0 { src.f64_in(0.5, 2.0) } else { slack * s };
                a[i][i] = if KINDS[kind] == "sym-indefinite" && src.coin() { -d } else { d };
            }
        }
        "spd-btb" => {
            let mut b = vec![vec![0.0; n]; n];
            for i in 0..n {
                for j in 0..n {
                    b[i][j] = sprinkle(src, dens, 1.0);
                }
            }
            for i in 0..n {
                for j in 0..n {
                    a[i][j] = (0..n).map(|k| b[k][i] * b[k][j]).sum();
                }
            }
            // exact symmetry
            for i in 0..n {
                for j in 0..i {
                    a[i][j] = a[j][i];
                }
            }
            let f = frob(&a).max(1e-3);
            let mu = f * 10f64.powf(src.f64_in(-3.0, 0.0));
            for i in 0..n {
                a[i][i] += mu;
            }
        }
        "sdd-nonsym-posdiag" | "sdd-nonsym-mixeddiag" => {
            for i in 0..n {
                for j in 0..n {
                    if i != j {
                        a[i][j] = sprinkle(src, dens, 1.0);
                    }
                }
            }
            let slack = src.f64_in(1.05, 3.0);
            for i in 0..n {
                let s: f64 = (0..n).filter(|&j| j != i).map(|j| a[i][j].abs()).sum();
                let d = if s == 0.0 { src.f64_in(0.5, 2.0) } else { slack * s };
                a[i][i] = if KINDS[kind] == "sdd-nonsym-mixeddiag" && src.coin() { -d } else { d };
            }
        }
        "general-nonsym" => {
            for i in 0..n {
                for j in 0..n {
                    a[i][j] = sprinkle(src, dens.max(3), 1.0);
                }
            }
        }
        _ => {
            // singular: random with a zero row, a zero column, or two equal rows
            for i in 0..n {
                for j in 0..n {
                    a[i][j] = sprinkle(src, dens.max(3), 1.0);
                }
                a[i][i] += 2.0;
            }
            if n >= 1 {
                let r = src.usize_below(n);
                match src.below(3) {
                    0 => {
                        for j in 0..n {
                            a[r][j] = 0.0;
                        }
                    }
                    1 => {
                        for i in 0..n {
                            a[i][r] = 0.0;
                        }
                    }
                    _ => {
                        let r2 = (r + 1) % n;
                        a[r2] = a[r].clone();
                    }
                }
            }
        }
    }
    a
}

/// exact power-of-ten-ish bad scaling D1 A D2 (powers of two so that A stays exactly what it is)
pub fn bad_scale(src: &mut Src, a: &mut D) {
    let n = a.len();
    for i in 0..n {
        let k = src.small_int(20) as i32;
        for j in 0..n {
            a[i][j] *= 2f64.powi(k);
        }
    }
    for j in 0..n {
        let k = src.small_int(20) as i32;
        for i in 0..n {
            a[i][j] *= 2f64.powi(k);
        }
    }
}

// ----------------------------------------------------------------- textbook references
/// Each returns Some(iterations) when the recurrence residual reaches tol*||b|| within `max`.
pub fn ref_cg(a: &D, b: &[f64], x0: &[f64], tol: f64, max: usize) -> Option<usize> {
    let nb = { let t = norm2(b); if t == 0.0 { 1.0 } else { t } };
    let mut x = x0.to_vec();
    let ax = matvec(a, &x);
    let mut r: Vec<f64> = b.iter().zip(&ax).map(|(p, q)| p - q).collect();
    if norm2(&r) <= tol * nb {
        return Some(0);
    }
    let mut p = r.clone();
    let mut rs = dot(&r, &r);
    for k in 1..=max {
        let q = matvec(a, &p);
        let alpha = rs / dot(&p, &q);
        if !alpha.is_finite() {
            return None;
        }
        for i in 0..x.len() {
            x[i] += alpha * p[i];
            r[i] -= alpha * q[i];
        }
        let rs_new = dot(&r, &r);
        if rs_new.sqrt() <= tol * nb {
            return Some(k);
        }
        let beta = rs_new / rs;
        for i in 0..x.len() {
            p[i] = r[i] + beta * p[i];
        }
        rs = rs_new;
    }
    None
}

pub fn ref_bicg(a: &D, b: &[f64], x0: &[f64], tol: f64, max: usize) -> Option<usize> {
    let nb = { let t = norm2(b); if t == 0.0 { 1.0 } else { t } };
    let mut x = x0.to_vec();
    let ax = matvec(a, &x);
    let mut r: Vec<f64> = b.iter().zip(&ax).map(|(p, q)| p - q).collect();
    if norm2(&r) <= tol * nb {
        return Some(0);
    }
    let mut rt = r.clone();
    let mut p = r.clone();
    let mut pt = rt.clone();
    let mut rho = dot(&rt, &r);
    for k in 1..=max {
        let q = matvec(a, &p);
        let qt = tmatvec(a, &pt);
        let alpha = rho / dot(&pt, &q);
        if !alpha.is_finite() {
            return None;
        }
        for i in 0..x.len() {
            x[i] += alpha * p[i];
            r[i] -= alpha * q[i];
            rt[i] -= alpha * qt[i];
        }
        if norm2(&r) <= tol * nb {
            return Some(k);
        }
        let rho_new = dot(&rt, &r);
        let beta = rho_new / rho;
        if !beta.is_finite() {
            return None;
        }
        for i in 0..x.len() {
            p[i] = r[i] + beta * p[i];
            pt[i] = rt[i] + beta * pt[i];
        }
        rho = rho_new;
    }
    None
}

/// textbook BiCG as `ref_bicg`, also reporting how close the run came to a breakdown: the largest
/// ||r~|| ||r|| / |r~.r| (Lanczos) and ||p~|| ||A p|| / |p~.A p| (pivot) seen over the iterations
pub fn ref_bicg_amp(a: &D, b: &[f64], x0: &[f64], tol: f64, max: usize) -> Option<(usize, f64, f64)> {
    let nb = { let t = norm2(b); if t == 0.0 { 1.0 } else { t } };
    let mut x = x0.to_vec();
    let ax = matvec(a, &x);
    let mut r: Vec<f64> = b.iter().zip(&ax).map(|(p, q)| p - q).collect();
    if norm2(&r) <= tol * nb {
        return Some((0, 1.0, 1.0));
    }
    let mut rt = r.clone();
    let mut p = r.clone();
    let mut pt = rt.clone();
    let mut rho = dot(&rt, &r);
    let (mut lan, mut piv) = (1.0f64, 1.0f64);
    for k in 1..=max {
        let q = matvec(a, &p);
        let qt = tmatvec(a, &pt);
        let d = dot(&pt, &q);
        piv = piv.max(norm2(&pt) * norm2(&q) / d.abs());
        let alpha = rho / d;
        if !alpha.is_finite() {
            return None;
        }
        for i in 0..x.len() {
            x[i] += alpha * p[i];
            r[i] -= alpha * q[i];
            rt[i] -= alpha * qt[i];
        }
        if norm2(&r) <= tol * nb {
            return Some((k, lan, piv));
        }
        let rho_new = dot(&rt, &r);
        lan = lan.max(norm2(&rt) * norm2(&r) / rho_new.abs());
        let beta = rho_new / rho;
        if !beta.is_finite() {
            return None;
        }
        for i in 0..x.len() {
            p[i] = r[i] + beta * p[i];
            pt[i] = rt[i] + beta * pt[i];
        }
        rho = rho_new;
    }
    None
}

pub fn ref_bicgstab(a: &D, b: &[f64], x0: &[f64], tol: f64, max: usize) -> Option<usize> {
    let nb = { let t = norm2(b); if t == 0.0 { 1.0 } else { t } };
    let n = b.len();
    let mut x = x0.to_vec();
    let ax = matvec(a, &x);
    let mut r: Vec<f64> = b.iter().zip(&ax).map(|(p, q)| p - q).collect();
    if norm2(&r) <= tol * nb {
        return Some(0);
    }
    let rt = r.clone();
    let (mut rho, mut alpha, mut omega) = (1.0, 1.0, 1.0);
    let mut v = vec![0.0; n];
    let mut p = vec![0.0; n];
    for k in 1..=max {
        let rho_new = dot(&rt, &r);
        if rho_new == 0.0 || !rho_new.is_finite() {
            return None;
        }
        let beta = (rho_new / rho) * (alpha / omega);
        for i in 0..n {
            p[i] = r[i] + beta * (p[i] - omega * v[i]);
        }
        v = matvec(a, &p);
        alpha = rho_new / dot(&rt, &v);
        if !alpha.is_finite() {
            return None;
        }
        let s: Vec<f64> = (0..n).map(|i| r[i] - alpha * v[i]).collect();
        if norm2(&s) <= tol * nb {
            return Some(k);
        }
        let t = matvec(a, &s);
        omega = dot(&t, &s) / dot(&t, &t);
        if !omega.is_finite() || omega == 0.0 {
            return None;
        }
        for i in 0..n {
            x[i] += alpha * p[i] + omega * s[i];
            r[i] = s[i] - omega * t[i];
        }
        if norm2(&r) <= tol * nb {
            return Some(k);
        }
        rho = rho_new;
    }
    None
}

/// dense reference solve with partial pivoting + one step of iterative refinement in double-double
pub fn dense_solve(a: &D, b: &[f64]) -> Option<Vec<f64>> {
    let ac: Vec<Vec<(f64, f64)>> = a.iter().map(|r| r.iter().map(|v| (*v, 0.0)).collect()).collect();
    let bc: Vec<(f64, f64)> = b.iter().map(|v| (*v, 0.0)).collect();
    let info = crate::refla::gepp(&ac, Some(&bc));
    let mut x: Vec<f64> = info.x?.iter().map(|z| z.0).collect();
    for _ in 0..2 {
        // r = b - A x in dd
        let r: Vec<f64> = a
            .iter()
            .enumerate()
            .map(|(i, row)| {
                let mut s = Dd::from(b[i]);
                for (j, v) in row.iter().enumerate() {
                    s = s - Dd::prod(*v, x[j]);
                }
                s.to_f64()
            })
            .collect();
        let rc: Vec<(f64, f64)> = r.iter().map(|v| (*v, 0.0)).collect();
        let d = crate::refla::gepp(&ac, Some(&rc)).x?;
        for i in 0..x.len() {
            x[i] += d[i].0;
        }
    }
    if x.iter().all(|v| v.is_finite()) {
        Some(x)
    } else {
        None
    }
}

/// Frobenius condition number from the reference inverse
pub fn cond_frob(a: &D) -> Option<f64> {
    let ac: Vec<Vec<(f64, f64)>> = a.iter().map(|r| r.iter().map(|v| (*v, 0.0)).collect()).collect();
    let inv = crate::refla::inverse_c(&ac)?;
    let fi = inv.iter().flatten().map(|z| z.0 * z.0).sum::<f64>().sqrt();
    let k = frob(a) * fi;
    if k.is_finite() {
        Some(k)
    } else {
        None
    }
}
