//! C11 — polynomial arithmetic, evaluation and differentiation obey ring and calculus laws.

use crate::engine::{Case, Outcome, Prop, Tier};
use crate::gen::Elem;
use crate::rat::Rat;
use crate::stream::Src;
use ohsl::{Cmplx, Polynomial};

pub struct C11;

pub fn coeffs_of<T: Elem>(p: &Polynomial<T>) -> Vec<T> {
    (0..p.size()).map(|i| p[i]).collect()
}
fn eq<T: Elem>(a: &[T], b: &[T]) -> bool {
    a.len() == b.len() && a.iter().zip(b).all(|(x, y)| x == y)
}
// ---- coefficient-list model (empty list = the empty polynomial, acting as zero)
pub fn m_add<T: Elem>(a: &[T], b: &[T]) -> Vec<T> {
    if a.is_empty() {
        return b.to_vec();
    }
    if b.is_empty() {
        return a.to_vec();
    }
    let z = T::from_int(0);
    (0..a.len().max(b.len())).map(|i| *a.get(i).unwrap_or(&z) + *b.get(i).unwrap_or(&z)).collect()
}
pub fn m_neg<T: Elem>(a: &[T]) -> Vec<T> {
    a.iter().map(|x| -*x).collect()
}
pub fn m_sub<T: Elem>(a: &[T], b: &[T]) -> Vec<T> {
    if a.is_empty() {
        return m_neg(b);
    }
    if b.is_empty() {
        return a.to_vec();
    }
    let z = T::from_int(0);
    (0..a.len().max(b.len())).map(|i| *a.get(i).unwrap_or(&z) - *b.get(i).unwrap_or(&z)).collect()
}
pub fn m_mul<T: Elem>(a: &[T], b: &[T]) -> Vec<T> {
    if a.is_empty() || b.is_empty() {
        return Vec::new();
    }
    let mut out = vec![T::from_int(0); a.len() + b.len() - 1];
    for (i, x) in a.iter().enumerate() {
        for (j, y) in b.iter().enumerate() {
            out[i + j] = out[i + j] + *x * *y;
        }
    }
    out
}
pub fn m_scale<T: Elem>(a: &[T], s: T) -> Vec<T> {
    a.iter().map(|x| *x * s).collect()
}
/// power-sum evaluation (not Horner)
pub fn m_eval<T: Elem>(a: &[T], x: T) -> T {
    let mut s = T::from_int(0);
    let mut p = T::from_int(1);
    for c in a {
        s = s + *c * p;
        p = p * x;
    }
    s
}
pub fn m_deriv<T: Elem>(a: &[T]) -> Vec<T> {
    (1..a.len()).map(|k| a[k] * T::from_int(k as i64)).collect()
}

fn gen_poly<T: Elem>(src: &mut Src) -> Vec<T> {
    // length 0 (empty polynomial) .. 9 (degree 8)
    let len = if src.below(8) == 0 { 0 } else { 1 + src.usize_below(9) };
    (0..len).map(|_| T::small(src)).collect()
}

fn run_t<T: Elem>(case: &mut Case) -> Result<(), String> {
    let mut a: Vec<T> = gen_poly(&mut case.src);
    let mut b: Vec<T> = gen_poly(&mut case.src);
    // float types, one case in four: the variable is rescaled by a power of two, p(x) -> 2^h p(2^g x), i.e. coefficient i
    // times 2^(g i + h) with 20 <= |g| <= 55 (products stay within the normal range).  All terms of one coefficient of a sum, product or derivative share one
    // exponent, so the textbook formulae stay exact - while coefficients of one polynomial differ by up to 2^480
    let scaled = !T::EXACT && case.src.below(4) == 0;
    if scaled {
        let g = (20 + case.src.below(36) as i32) * if case.src.coin() { 1 } else { -1 };
        let ha = case.src.small_int(40) as i32;
        let hb = ha; // sums need a common exponent
        for (i, c) in a.iter_mut().enumerate() {
            *c = c.scale2(g * i as i32 + ha);
        }
        for (i, c) in b.iter_mut().enumerate() {
            *c = c.scale2(g * i as i32 + hb);
        }
        case.class(format!("{} coefficients rescaled by powers of two", T::NAME));
    }
    let (a, b) = (a, b);
    let s = T::small(&mut case.src);
    let x = if T::EXACT { T::small(&mut case.src) } else { T::from_int(case.src.small_int(3)) };
    // operands may carry spare capacity (as after trim()/pop()): the coefficient list, not the buffer, is the polynomial
    let spare = |v: &Vec<T>, extra: usize| -> Vec<T> {
        let mut w = Vec::with_capacity(v.len() + extra);
        w.extend_from_slice(v);
        w
    };
    let (ea, eb) = (case.src.usize_below(4) * 3, case.src.usize_below(4) * 3);
    let pa = Polynomial::<T>::new(spare(&a, ea));
    let pb = Polynomial::<T>::new(spare(&b, eb));
    case.class(format!("{} lens {}", T::NAME, if a.is_empty() || b.is_empty() { "one-empty" } else if a.len() == b.len() { "equal" } else { "different" }));
    if !a.is_empty() && !b.is_empty() && a.len() != b.len() {
        case.mark_nontrivial();
    }
    case.describe(|| format!("{} p={:?} q={:?} s={:?} x={:?}", T::NAME, a, b, s, x));

    let chk = |got: &Polynomial<T>, exp: &[T], what: &str| -> Result<(), String> {
        let g = coeffs_of(got);
        if !eq(&g, exp) {
            return Err(format!("{}: coefficients {:?}, expected {:?}", what, g, exp));
        }
        match (got.degree(), exp.len()) {
            (Err(_), 0) => Ok(()),
            (Ok(d), n) if n >= 1 && d == n - 1 => Ok(()),
            (d, n) => Err(format!("{}: degree() = {:?} for {} coefficients", what, d, n)),
        }
    };
    // ---- ring operations, borrowed and owned
    chk(&(&pa + &pb), &m_add(&a, &b), "&p + &q")?;
    chk(&(pa.clone() + pb.clone()), &m_add(&a, &b), "p + q")?;
    chk(&(&pa - &pb), &m_sub(&a, &b), "&p - &q")?;
    chk(&(pa.clone() - pb.clone()), &m_sub(&a, &b), "p - q")?;
    chk(&(-&pa), &m_neg(&a), "-&p")?;
    chk(&(-pa.clone()), &m_neg(&a), "-p")?;
    chk(&(&pa * &pb), &m_mul(&a, &b), "&p * &q")?;
    chk(&(pa.clone() * pb.clone()), &m_mul(&a, &b), "p * q")?;
    chk(&(&pa * s), &m_scale(&a, s), "&p * s")?;
    chk(&(pa.clone() * s), &m_scale(&a, s), "p * s")?;
    chk(&pa, &a, "operand p after by-reference operators")?;
    chk(&pb, &b, "operand q after by-reference operators")?;
    // spare capacity through the API itself: append zeros then trim(), push then pop
    if !a.is_empty() && !a.last().unwrap().is_zero_e() {
        let mut pt = Polynomial::<T>::new(a.clone());
        for _ in 0..3 {
            pt.coeffs().push(T::from_int(0));
        }
        pt.trim();
        chk(&pt, &a, "trim() after appending zero coefficients")?;
        chk(&(pt.clone() + pb.clone()), &m_add(&a, &b), "trimmed p + q")?;
        chk(&(pt + pb.clone()), &m_add(&a, &b), "(trimmed p, moved) + q")?;
        chk(&(pb.clone() + Polynomial::<T>::new(spare(&a, 8))), &m_add(&b, &a), "q + (p with spare capacity)")?;
        let mut pe = Polynomial::<T>::new(a.clone());
        pe.coeffs().clear();
        chk(&(pe + pb.clone()), &b, "(p emptied with coeffs().clear()) + q")?;
    }
    // the same object on both sides of a borrowing operator
    chk(&(&pa + &pa), &m_add(&a, &a), "&p + &p")?;
    chk(&(&pa - &pa), &m_sub(&a, &a), "&p - &p")?;
    chk(&(&pa * &pa), &m_mul(&a, &a), "&p * &p")?;
    // commutativity as polynomials
    chk(&(&pb + &pa), &m_add(&a, &b), "&q + &p")?;
    chk(&(&pb * &pa), &m_mul(&a, &b), "&q * &p")?;
    // ---- evaluation is a ring homomorphism
    if !a.is_empty() && !scaled {
        let va = pa.eval(x);
        if !(va == m_eval(&a, x)) {
            return Err(format!("p.eval({:?}) = {:?}, power sum {:?}", x, va, m_eval(&a, x)));
        }
        if !b.is_empty() {
            let vb = pb.eval(x);
            let sum = (&pa + &pb).eval(x);
            let dif = (&pa - &pb).eval(x);
            let pro = (&pa * &pb).eval(x);
            if !(sum == va + vb) || !(dif == va - vb) || !(pro == va * vb) {
                return Err(format!("evaluation is not a homomorphism at {:?}: (p+q)={:?} (p-q)={:?} (p*q)={:?} with p={:?} q={:?}", x, sum, dif, pro, va, vb));
            }
        }
        if !((&pa * s).eval(x) == va * s) {
            return Err("(p*s)(x) != p(x)*s".into());
        }
    }
    // ---- differentiation
    if !a.is_empty() {
        let da = m_deriv(&a);
        chk(&pa.derivative(), &da, "p.derivative()")?;
        // every order up to deg+1
        let mut cur = a.clone();
        for n in 0..=a.len() {
            chk(&pa.derivative_n(n), &cur, &format!("p.derivative_n({})", n))?;
            if n < a.len() && !scaled {
                let v = pa.derivative_at(x, n);
                if !(v == m_eval(&cur, x)) {
                    return Err(format!("p.derivative_at({:?},{}) = {:?}, expected {:?}", x, n, v, m_eval(&cur, x)));
                }
            }
            if cur.is_empty() {
                break;
            }
            cur = m_deriv(&cur);
        }
        if !b.is_empty() {
            let db = m_deriv(&b);
            // linearity and product rule as polynomial identities
            chk(&(&pa + &pb).derivative(), &m_add(&da, &db), "(p+q)'")?;
            chk(&(&pa.derivative() + &pb.derivative()), &m_add(&da, &db), "p' + q'")?;
            let lhs = (&pa * &pb).derivative();
            let rhs = &(&pa.derivative() * &pb) + &(&pa * &pb.derivative());
            let (l, r) = (coeffs_of(&lhs), coeffs_of(&rhs));
            if !eq(&l, &r) {
                return Err(format!("product rule: (pq)' = {:?} but p'q + pq' = {:?}", l, r));
            }
            if !eq(&l, &m_deriv(&m_mul(&a, &b))) {
                return Err(format!("(pq)' = {:?}, expected {:?}", l, m_deriv(&m_mul(&a, &b))));
            }
            chk(&(&pa * s).derivative(), &m_scale(&da, s), "(s p)'")?;
        }
    }
    // ---- constructors / accessors
    if a.len() == 3 {
        let q = Polynomial::<T>::quadratic(a[2], a[1], a[0]);
        chk(&q, &a, "quadratic(a,b,c)")?;
    }
    if a.len() == 4 {
        let q = Polynomial::<T>::cubic(a[3], a[2], a[1], a[0]);
        chk(&q, &a, "cubic(a,b,c,d)")?;
    }
    let mut pm = pa.clone();
    if !a.is_empty() {
        let i = case.src.usize_below(a.len());
        pm[i] = s;
        let mut e = a.clone();
        e[i] = s;
        chk(&pm, &e, "index_mut write")?;
        chk(&pa, &a, "original after mutation of its clone")?;
        let all_zero = e.iter().all(|v| v.is_zero_e());
        if pm.is_zero() != all_zero {
            return Err(format!("is_zero() = {} for {:?}", pm.is_zero(), e));
        }
        pm.trim();
        let mut t = e.clone();
        while t.len() > 1 && t.last().unwrap().is_zero_e() {
            t.pop();
        }
        chk(&pm, &t, "trim()")?;
    }
    Ok(())
}

impl Prop for C11 {
    fn id(&self) -> &'static str {
        "C11"
    }
    fn rule(&self) -> String {
        "pairs of polynomials of length 0..=9 (the empty polynomial with probability 1/8 on either side) over {rationals, small-integer f64, Gaussian-integer Complex<f64>}, a scalar and an evaluation point; \
         operands built with 0..9 elements of spare Vec capacity, also after push+trim() and coeffs().clear(); sum, difference, negation, product, scalar multiple in borrowed and owned form - including the same object on both sides (&p + &p, &p - &p, &p * &p) - compared coefficient-by-coefficient (and by degree()) with a coefficient-list model (termwise / convolution, empty acts as zero); \
         eval against a power sum and the homomorphism laws for +,-,*; derivative coefficients (k+1)a_{k+1}, derivative_n for every order 0..=deg+1, derivative_at for orders <= deg, linearity and the product rule as polynomial identities; \
         quadratic/cubic constructors, index write on a clone, is_zero, trim. All comparisons exact. Non-trivial: both operands non-empty with different lengths. distinct = distinct decoded choice sequence."
            .into()
    }
    fn assumptions(&self) -> Vec<String> {
        vec!["f64 / Complex<f64> data are small integers so every intermediate is exactly representable".into()]
    }
    fn stream_len(&self, _tier: Tier) -> usize {
        64
    }
    fn random_cases(&self, tier: Tier) -> usize {
        tier.pick(150_000, 3_000_000)
    }
    fn run(&self, case: &mut Case) -> Outcome {
        let r = match case.src.below(3) {
            0 => run_t::<Rat>(case),
            1 => run_t::<f64>(case),
            _ => run_t::<Cmplx>(case),
        };
        match r {
            Ok(()) => Outcome::Pass,
            Err(m) => Outcome::Fail(m),
        }
    }
}
