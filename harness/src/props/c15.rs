//! C15 — vector arithmetic, reductions, norms and edits match their definitions under any history.

use super::util::EPS;
use crate::dd::Dd;
use crate::engine::{Case, Outcome, Prop, Tier};
use crate::gen::{self, Elem};
use crate::rat::Rat;
use crate::stream::Src;
use ohsl::{Cmplx, Complex, Vector};

pub struct C15;

fn vgen<T: Elem>(src: &mut Src, n: usize) -> Vec<T> {
    (0..n).map(|_| T::small(src)).collect()
}
fn veq<T: Elem>(got: &Vector<T>, exp: &[T], what: &str) -> Result<(), String> {
    if got.vec.len() != exp.len() || got.vec.iter().zip(exp).any(|(a, b)| !(a == b)) {
        return Err(format!("{}: {:?}, expected {:?}", what, got.vec, exp));
    }
    if got.size() != exp.len() {
        return Err(format!("{}: size() = {}", what, got.size()));
    }
    Ok(())
}

fn arithmetic<T: Elem>(case: &mut Case) -> Result<(), String> {
    let n = case.src.usize_below(65);
    let a: Vec<T> = vgen(&mut case.src, n);
    let b: Vec<T> = vgen(&mut case.src, n);
    let s = T::small(&mut case.src);
    let snz = T::small_nz(&mut case.src);
    let spare = |v: &Vec<T>, extra: usize| -> Vec<T> {
        let mut w = Vec::with_capacity(v.len() + extra);
        w.extend_from_slice(v);
        w
    };
    let (ea, eb) = (case.src.usize_below(3) * 5, case.src.usize_below(3) * 5);
    let (va, vb) = (Vector::create(spare(&a, ea)), Vector::create(spare(&b, eb)));
    case.class(format!("arithmetic {} n{}", T::NAME, if n == 0 { "=0" } else if n < 3 { "<3" } else { ">=3" }));
    case.describe(|| format!("arithmetic {} a={:?} b={:?} s={:?}", T::NAME, a, b, s));
    let z2 = |f: &dyn Fn(T, T) -> T| -> Vec<T> { a.iter().zip(&b).map(|(x, y)| f(*x, *y)).collect() };
    let z1 = |f: &dyn Fn(T) -> T| -> Vec<T> { a.iter().map(|x| f(*x)).collect() };
    veq(&(&va + &vb), &z2(&|x, y| x + y), "&a + &b")?;
    veq(&(va.clone() + &vb), &z2(&|x, y| x + y), "a + &b")?;
    veq(&(va.clone() + vb.clone()), &z2(&|x, y| x + y), "a + b")?;
    veq(&(&va - &vb), &z2(&|x, y| x - y), "&a - &b")?;
    veq(&(va.clone() - &vb), &z2(&|x, y| x - y), "a - &b")?;
    veq(&(va.clone() - vb.clone()), &z2(&|x, y| x - y), "a - b")?;
    veq(&(-va.clone()), &z1(&|x| -x), "-a")?;
    veq(&(va.clone() * s), &z1(&|x| x * s), "a * s")?;
    if T::EXACT {
        veq(&(va.clone() / snz), &z1(&|x| x / snz), "a / s")?;
        let mut t = va.clone();
        t /= snz;
        veq(&t, &z1(&|x| x / snz), "a /= s")?;
    }
    if !T::EXACT {
        // exactly representable quotients: (a_i * s) / s must give back a_i exactly
        let prod: Vec<T> = a.iter().map(|x| *x * snz).collect();
        let vp = Vector::create(prod.clone());
        veq(&(vp.clone() / snz), &a, "(a * s) / s")?;
        let mut t = vp.clone();
        t /= snz;
        veq(&t, &a, "(a * s) /= s")?;
    }
    let mut t = va.clone();
    t += vb.clone();
    veq(&t, &z2(&|x, y| x + y), "a += b")?;
    let mut t = va.clone();
    t -= vb.clone();
    veq(&t, &z2(&|x, y| x - y), "a -= b")?;
    let mut t = va.clone();
    t += s;
    veq(&t, &z1(&|x| x + s), "a += s")?;
    let mut t = va.clone();
    t -= s;
    veq(&t, &z1(&|x| x - s), "a -= s")?;
    let mut t = va.clone();
    t *= s;
    veq(&t, &z1(&|x| x * s), "a *= s")?;
    veq(&va, &a, "operand a after by-reference operators / clone mutations")?;
    veq(&vb, &b, "operand b after by-reference operators")?;
    // the same object on both sides
    veq(&(&va + &va), &a.iter().map(|x| *x + *x).collect::<Vec<T>>(), "&a + &a")?;
    veq(&(&va - &va), &a.iter().map(|x| *x - *x).collect::<Vec<T>>(), "&a - &a")?;
    {
        let dd = va.dot(&va);
        let e = a.iter().fold(T::from_int(0), |acc, x| acc + *x * *x);
        if !(dd == e) {
            return Err(format!("a.dot(&a) = {:?}, expected {:?}", dd, e));
        }
    }
    // dot
    let d = va.dot(&vb);
    let e = a.iter().zip(&b).fold(T::from_int(0), |acc, (x, y)| acc + *x * *y);
    if !(d == e) {
        return Err(format!("dot = {:?}, expected {:?}", d, e));
    }
    // constructors
    veq(&Vector::<T>::new(n, s), &vec![s; n], "new(n, s)")?;
    veq(&Vector::<T>::zeros(n), &vec![T::from_int(0); n], "zeros(n)")?;
    veq(&Vector::<T>::ones(n), &vec![T::from_int(1); n], "ones(n)")?;
    veq(&Vector::<T>::empty(), &[], "empty()")?;
    // reductions over ranges: every (start,end) for n <= 12, random ranges beyond
    if n >= 1 {
        let mut ranges: Vec<(usize, usize)> = Vec::new();
        if n <= 12 {
            for st in 0..n {
                for en in st..n {
                    ranges.push((st, en));
                }
            }
        } else {
            for _ in 0..12 {
                let st = case.src.usize_below(n);
                let en = st + case.src.usize_below(n - st);
                ranges.push((st, en));
            }
        }
        for (st, en) in ranges {
            // keep products small enough to stay exact
            let en_p = en.min(st + 9);
            let es = a[st..=en].iter().fold(T::from_int(0), |acc, x| acc + *x);
            let ep = a[st + 1..=en_p].iter().fold(a[st], |acc, x| acc * *x);
            if !(va.sum_slice(st, en) == es) {
                return Err(format!("sum_slice({},{}) = {:?}, expected {:?}", st, en, va.sum_slice(st, en), es));
            }
            if !(va.product_slice(st, en_p) == ep) {
                return Err(format!("product_slice({},{}) = {:?}, expected {:?}", st, en_p, va.product_slice(st, en_p), ep));
            }
            if n >= 3 && (st > 0 || en < n - 1) {
                case.mark_nontrivial();
            }
        }
        let es = a.iter().fold(T::from_int(0), |acc, x| acc + *x);
        if !(va.sum() == es) {
            return Err(format!("sum() = {:?}, expected {:?}", va.sum(), es));
        }
        if n <= 10 {
            let ep = a[1..].iter().fold(a[0], |acc, x| acc * *x);
            if !(va.product() == ep) {
                return Err(format!("product() = {:?}, expected {:?}", va.product(), ep));
            }
        }
    }
    // abs and norm_1 (for complex elements abs is the modulus as a complex number: compare loosely)
    let ab = va.abs();
    if ab.vec.len() != n {
        return Err("abs() changed the length".into());
    }
    let mut n1 = T::from_int(0);
    for i in 0..n {
        let e = a[i].abs();
        if !(ab.vec[i] == e) {
            return Err(format!("abs()[{}] = {:?}, expected {:?}", i, ab.vec[i], e));
        }
        n1 = n1 + e;
    }
    if T::EXACT || T::NAME == "f64" {
        if !(va.norm_1() == n1) {
            return Err(format!("norm_1 = {:?}, expected {:?}", va.norm_1(), n1));
        }
    }
    Ok(())
}

fn complex_parts(case: &mut Case) -> Result<(), String> {
    let n = case.src.usize_below(33);
    let a: Vec<(Rat, Rat)> = (0..n).map(|_| (gen::rat(&mut case.src), gen::rat(&mut case.src))).collect();
    let v: Vector<Complex<Rat>> = Vector::create(a.iter().map(|z| Complex::new(z.0, z.1)).collect());
    case.class("complex<rat> conj/real");
    case.describe(|| format!("complex<rat> vector {:?}", a));
    let c = v.conj();
    let r = v.real();
    if c.vec.len() != n || r.vec.len() != n {
        return Err("conj()/real() changed the length".into());
    }
    for i in 0..n {
        if c.vec[i].real != a[i].0 || c.vec[i].imag != -a[i].1 {
            return Err(format!("conj()[{}] = {:?}, expected conj of {:?}", i, c.vec[i], a[i]));
        }
        if r.vec[i] != a[i].0 {
            return Err(format!("real()[{}] = {:?}, expected {:?}", i, r.vec[i], a[i].0));
        }
        if v.vec[i].real != a[i].0 || v.vec[i].imag != a[i].1 {
            return Err("conj()/real() modified the vector".into());
        }
    }
    // Complex<f64>: conj, real and the infinity norm
    let m = 1 + case.src.usize_below(20);
    let b: Vec<(f64, f64)> = (0..m).map(|_| (case.src.small_int(50) as f64, case.src.small_int(50) as f64)).collect();
    let w: Vector<Cmplx> = Vector::create(b.iter().map(|z| Cmplx::new(z.0, z.1)).collect());
    let ni = w.norm_inf();
    let e = b.iter().map(|z| z.0.hypot(z.1)).fold(0.0, f64::max);
    if !((ni - e).abs() <= 4.0 * EPS * e) {
        return Err(format!("complex norm_inf = {:e}, expected {:e}", ni, e));
    }
    let wc = w.conj();
    let wr = w.real();
    for i in 0..m {
        if wc.vec[i].real != b[i].0 || wc.vec[i].imag != -b[i].1 || wr.vec[i] != b[i].0 {
            return Err(format!("Complex<f64> conj/real wrong at {}", i));
        }
    }
    Ok(())
}

fn gen_wide(src: &mut Src, lo: f64, hi: f64) -> f64 {
    match src.below(6) {
        0 => 0.0,
        1 => src.small_int(9) as f64,
        _ => gen::f64_log(src, lo, hi),
    }
}

fn norms(case: &mut Case) -> Result<(), String> {
    let n = 1 + case.src.usize_below(64);
    let wide = case.src.coin();
    let (lo, hi) = if wide { (-100.0, 100.0) } else { (-30.0, 30.0) };
    let a: Vec<f64> = (0..n).map(|_| gen_wide(&mut case.src, lo, hi)).collect();
    let b: Vec<f64> = (0..n).map(|_| gen_wide(&mut case.src, lo, hi)).collect();
    let s = gen_wide(&mut case.src, -3.0, 3.0);
    // p: integers, continuous, and values just beside 1 and 2 (a "fast path" for p ~ 1 or p ~ 2 must not be tolerant)
    let p = match case.src.below(4) {
        0 => case.src.urange(1, 8) as f64,
        1 => {
            let d = 10f64.powf(case.src.f64_in(-12.0, -5.0));
            match case.src.below(3) {
                0 => 1.0 + d,
                1 => 2.0 + d,
                _ => 2.0 - d,
            }
        }
        _ => case.src.f64_in(1.0, 8.0),
    };
    let (va, vb) = (Vector::create(a.clone()), Vector::create(b.clone()));
    case.class(format!("norms {}", if wide { "1e+-100" } else { "1e+-30" }));
    case.describe(|| format!("norms a={:?} b={:?} s={:e} p={}", a, b, s, p));
    let n1: f64 = { let mut t = Dd::ZERO; for x in &a { t = t + Dd::from(x.abs()); } t.to_f64() };
    let n2: f64 = { let mut t = Dd::ZERO; for x in &a { t = t + Dd::prod(*x, *x); } t.sqrt().to_f64() };
    let ninf = a.iter().map(|x| x.abs()).fold(0.0, f64::max);
    let tol = |v: f64| 4.0 * EPS * (n as f64 + 4.0) * v;
    if !((va.norm_1() - n1).abs() <= tol(n1)) {
        return Err(format!("norm_1 = {:e}, expected {:e}", va.norm_1(), n1));
    }
    if !((va.norm_2() - n2).abs() <= tol(n2)) {
        return Err(format!("norm_2 = {:e}, expected {:e}", va.norm_2(), n2));
    }
    if va.norm_inf() != ninf {
        return Err(format!("norm_inf = {:e}, expected {:e}", va.norm_inf(), ninf));
    }
    let slack = 1.0 + 8.0 * EPS * (n as f64 + 4.0);
    // non-negativity and the chain inf <= 2 <= 1
    if !(va.norm_1() >= 0.0 && va.norm_2() >= 0.0 && va.norm_inf() >= 0.0) {
        return Err("a norm is negative".into());
    }
    if !(va.norm_inf() <= va.norm_2() * slack && va.norm_2() <= va.norm_1() * slack) {
        return Err(format!("norm chain violated: inf {:e} two {:e} one {:e}", va.norm_inf(), va.norm_2(), va.norm_1()));
    }
    // triangle inequality and homogeneity (1-, 2-, inf-norm)
    let sum = &va + &vb;
    if !(sum.norm_1() <= (va.norm_1() + vb.norm_1()) * slack && sum.norm_2() <= (va.norm_2() + vb.norm_2()) * slack && sum.norm_inf() <= (va.norm_inf() + vb.norm_inf()) * slack) {
        return Err("triangle inequality violated".into());
    }
    let sc = va.clone() * s;
    for (name, x, y) in [("1", sc.norm_1(), va.norm_1()), ("2", sc.norm_2(), va.norm_2()), ("inf", sc.norm_inf(), va.norm_inf())] {
        if !((x - s.abs() * y).abs() <= tol(s.abs() * y)) {
            return Err(format!("homogeneity of the {}-norm violated: ||s a|| = {:e}, |s| ||a|| = {:e}", name, x, s.abs() * y));
        }
    }
    let fs = s * va.clone();
    if fs.vec.iter().zip(&sc.vec).any(|(x, y)| x.to_bits() != y.to_bits()) {
        return Err("f64 * Vector differs from Vector * f64".into());
    }
    if !wide {
        let mut t = Dd::ZERO;
        for x in &a {
            t = t + Dd::from(x.abs().powf(p));
        }
        let np = t.to_f64().powf(1.0 / p);
        let got = va.norm_p(p);
        if !((got - np).abs() <= 16.0 * EPS * (n as f64 + 4.0) * np) {
            return Err(format!("norm_p({}) = {:e}, expected {:e}", p, got, np));
        }
        let sp = sc.norm_p(p);
        if !((sp - s.abs() * got).abs() <= 64.0 * EPS * (n as f64 + 4.0) * (s.abs() * got) + f64::MIN_POSITIVE) {
            return Err(format!("homogeneity of the p-norm violated: {:e} vs {:e}", sp, s.abs() * got));
        }
        let spn = sum.norm_p(p);
        if !(spn <= (got + vb.norm_p(p)) * (1.0 + 64.0 * EPS * (n as f64 + 4.0))) {
            return Err(format!("triangle inequality of the p-norm (p={}) violated: {:e} > {:e} + {:e}", p, spn, got, vb.norm_p(p)));
        }
        if !(va.norm_inf() <= got * (1.0 + 64.0 * EPS * (n as f64 + 4.0)) && got <= va.norm_1() * (1.0 + 64.0 * EPS * (n as f64 + 4.0))) {
            return Err(format!("inf <= p <= 1 chain violated for p = {}", p));
        }
    }
    Ok(())
}

/// the infinity- and 1-norm need no squares: they must be right over the whole finite range
fn extreme_norms(case: &mut Case) -> Result<(), String> {
    let n = 1 + case.src.usize_below(16);
    let side = case.src.below(3); // 0: all tiny, 1: all huge, 2: mixed
    let a: Vec<f64> = (0..n)
        .map(|_| match (side, case.src.below(6)) {
            (_, 0) => 0.0,
            (0, _) => gen::f64_log(&mut case.src, -300.0, -150.0),
            (1, _) => gen::f64_log(&mut case.src, 150.0, 300.0),
            _ => gen::f64_log(&mut case.src, -300.0, 300.0),
        })
        .collect();
    let va = Vector::create(a.clone());
    case.class(format!("extreme-magnitude norms {}", ["tiny", "huge", "mixed"][side as usize]));
    case.mark_nontrivial();
    case.describe(|| format!("extreme norms a={:?}", a));
    let ninf = a.iter().map(|x| x.abs()).fold(0.0, f64::max);
    if va.norm_inf() != ninf {
        return Err(format!("norm_inf = {:e}, largest absolute value {:e}", va.norm_inf(), ninf));
    }
    let n1: f64 = a.iter().map(|x| x.abs()).sum();
    if n1.is_finite() && !((va.norm_1() - n1).abs() <= 4.0 * EPS * (n as f64 + 4.0) * n1) {
        return Err(format!("norm_1 = {:e}, expected {:e}", va.norm_1(), n1));
    }
    if !(va.norm_inf() <= va.norm_1() * (1.0 + 1e-12)) {
        return Err("norm_inf > norm_1".into());
    }
    let w: Vector<Cmplx> = Vector::create(a.iter().map(|x| Cmplx::new(*x, 0.0)).collect());
    let _ = w;
    Ok(())
}

fn history(case: &mut Case) -> Result<(), String> {
    let n0 = case.src.usize_below(8);
    let mut m: Vec<Rat> = (0..n0).map(|_| gen::rat_int(&mut case.src, 6)).collect();
    let mut v: Vector<Rat> = Vector::create(m.clone());
    let steps = case.src.urange(1, 40);
    let mut log = vec![format!("start {:?}", m)];
    let mut resized = false;
    let mut idx_after_resize = false;
    for _ in 0..steps {
        let op = case.src.below(13);
        let val = gen::rat_int(&mut case.src, 6);
        match op {
            0 => {
                v.push(val);
                m.push(val);
                log.push(format!("push({:?})", val));
                resized = true;
            }
            1 => {
                v.push_front(val);
                m.insert(0, val);
                log.push(format!("push_front({:?})", val));
                resized = true;
            }
            2 => {
                let pos = case.src.usize_below(m.len() + 1);
                v.insert(pos, val);
                m.insert(pos, val);
                log.push(format!("insert({},{:?})", pos, val));
                resized = true;
                idx_after_resize = true;
            }
            3 => {
                if m.is_empty() {
                    continue;
                }
                let g = v.pop();
                let e = m.pop().unwrap();
                log.push("pop".into());
                if g != e {
                    return Err(format!("pop() returned {:?}, expected {:?} after [{}]", g, e, log.join("; ")));
                }
                resized = true;
            }
            4 => {
                if m.is_empty() {
                    continue;
                }
                let (i, j) = (case.src.usize_below(m.len()), case.src.usize_below(m.len()));
                v.swap(i, j);
                m.swap(i, j);
                log.push(format!("swap({},{})", i, j));
                idx_after_resize |= resized;
            }
            5 => {
                let k = case.src.usize_below(12);
                v.resize(k);
                m.resize(k, Rat::int(0));
                log.push(format!("resize({})", k));
                resized = true;
            }
            6 => {
                v.assign(val);
                for x in m.iter_mut() {
                    *x = val;
                }
                log.push(format!("assign({:?})", val));
            }
            7 => {
                if case.src.below(4) == 0 {
                    v.clear();
                    m.clear();
                    log.push("clear".into());
                    resized = true;
                }
            }
            8 => {
                v.sort();
                m.sort();
                log.push("sort".into());
            }
            9 => {
                v.sort_by(|a, b| b.cmp(a));
                m.sort_by(|a, b| b.cmp(a));
                log.push("sort_by(descending)".into());
            }
            10 => {
                if m.is_empty() {
                    continue;
                }
                let g = v.find(val);
                let e = m.iter().position(|x| *x == val).unwrap_or(m.len() - 1);
                log.push(format!("find({:?})", val));
                if g != e {
                    return Err(format!("find({:?}) = {}, expected {} (first match, else last index) in {:?} after [{}]", val, g, e, m, log.join("; ")));
                }
                idx_after_resize |= resized;
            }
            11 => {
                if m.is_empty() {
                    continue;
                }
                let i = case.src.usize_below(m.len());
                v[i] = val;
                m[i] = val;
                log.push(format!("[{}]={:?}", i, val));
                idx_after_resize |= resized;
            }
            _ => {
                // clone independence
                let cl = v.clone();
                v.assign(Rat::int(99));
                v = cl;
                log.push("v = v.clone() (after scribbling on the original)".into());
            }
        }
        if v.vec != m || v.size() != m.len() {
            return Err(format!("after [{}]: vector {:?}, list model {:?}", log.join("; "), v.vec, m));
        }
        for i in 0..m.len() {
            if v[i] != m[i] {
                return Err(format!("index {} reads {:?}, model {:?}", i, v[i], m[i]));
            }
        }
    }
    case.class(format!("history steps={}", (log.len() - 1) / 10 * 10));
    if log.len() > 6 && idx_after_resize {
        case.mark_nontrivial();
    }
    case.describe(|| format!("history: {}", log.join("; ")));
    Ok(())
}

fn sequences_pair(case: &mut Case, a: f64, b: f64, n: usize) -> Result<(), String> {
    let p = case.src.f64_in(0.25, 4.0);
    case.class("sequences with end points a few ulps apart");
    case.mark_nontrivial();
    case.describe(|| format!("linspace/powspace a={:e} b={:e} (bits {:#x}, {:#x}) n={} p={}", a, b, a.to_bits(), b.to_bits(), n, p));
    check_sequences(a, b, n, p)
}

fn sequences(case: &mut Case) -> Result<(), String> {
    // usually 2..=64 points; one case in eight 65..=4000 (log-uniform).  (Counts above 2^24 were tried and dropped: one
    // failing case of that size makes shrinking - hundreds of re-evaluations of a second each - take hours)
    let n = case.src.urange(2, 64);
    let n = match case.src.below(6000) {
        k if k < 750 => (65.0 * (4000.0f64 / 65.0).powf(case.src.f64_in(0.0, 1.0))) as usize,
        _ => n,
    };
    let a = match case.src.below(4) {
        0 => 0.0,
        1 => case.src.small_int(10) as f64,
        _ => gen::f64_log(&mut case.src, -6.0, 6.0),
    };
    let mut b = match case.src.below(4) {
        0 => case.src.small_int(10) as f64,
        _ => gen::f64_log(&mut case.src, -6.0, 6.0),
    };
    if b == a {
        b = a + 1.0;
    }
    // end points only a few units in the last place apart (or equal): the interpolation formula must stay monotone
    let close = case.src.below(4) == 0;
    if close {
        let base = if a == 0.0 { 1.1 } else { a };
        let j = case.src.below(300) as i64 * if case.src.coin() { 1 } else { -1 };
        let bits = base.to_bits() as i64;
        b = f64::from_bits((bits + if base > 0.0 { j } else { -j }) as u64);
        if a == 0.0 {
            // (a = 0 has no neighbours of comparable size: use the pair (base, b) instead)
            return sequences_pair(case, base, b, n);
        }
    }
    // exponent of the power spacing: an integer 1..=8 half of the time (an implementation may special-case them)
    let p = case.src.f64_in(0.25, 4.0);
    let p = if case.src.coin() { (1 + case.src.below(8)) as f64 } else { p };
    if n > 64 {
        case.class(if n > 100_000 { "sequences with more than 2^24 points" } else { "sequences with 65..=4000 points" });
    }
    if close {
        case.class(format!("sequences with end points {} ulps apart", if a == b { "0" } else { "1..299" }));
    }
    case.class(format!("sequences {}", if b > a { "increasing" } else if b < a { "decreasing" } else { "constant" }));
    case.mark_nontrivial();
    case.describe(|| format!("linspace/powspace a={:e} b={:e} (bits {:#x}, {:#x}) n={} p={}", a, b, a.to_bits(), b.to_bits(), n, p));
    check_sequences(a, b, n, p)?;
    // random(): n elements in [0,1)
    let r = Vector::<f64>::random(n);
    if r.size() != n || r.vec.iter().any(|x| !(*x >= 0.0 && *x < 1.0)) {
        return Err(format!("random({}): {:?}", n, r.vec));
    }
    Ok(())
}

fn check_sequences(a: f64, b: f64, n: usize, p: f64) -> Result<(), String> {
    let scale = a.abs().max(b.abs());
    for (name, v) in [("linspace", Vector::<f64>::linspace(a, b, n)), ("powspace", Vector::<f64>::powspace(a, b, n, p))] {
        if v.size() != n {
            return Err(format!("{}: {} elements, expected {}", name, v.size(), n));
        }
        if v[0] != a {
            return Err(format!("{}: first element {:e} is not exactly a = {:e}", name, v[0], a));
        }
        if !((v[n - 1] - b).abs() <= 8.0 * EPS * scale) {
            return Err(format!("{}: last element {:e} differs from b = {:e} by more than rounding", name, v[n - 1], b));
        }
        for i in 1..n {
            let ok = if b > a { v[i] >= v[i - 1] } else { v[i] <= v[i - 1] };
            if !ok {
                return Err(format!("{}: not monotone at {}: {:e} then {:e}", name, i, v[i - 1], v[i]));
            }
            let inside = if b > a { v[i] >= a && v[i] <= b + 4.0 * EPS * scale } else { v[i] <= a && v[i] >= b - 4.0 * EPS * scale };
            if !inside {
                return Err(format!("{}: element {} = {:e} outside [a,b]", name, i, v[i]));
            }
        }
        if name == "linspace" {
            for i in 0..n {
                let e = a + (b - a) * (i as f64) / (n as f64 - 1.0);
                if !((v[i] - e).abs() <= 8.0 * EPS * scale) {
                    return Err(format!("linspace: element {} = {:e}, expected {:e}", i, v[i], e));
                }
            }
        } else {
            for i in 0..n {
                let e = a + (b - a) * (i as f64 / (n as f64 - 1.0)).powf(p);
                if !((v[i] - e).abs() <= 8.0 * EPS * scale) {
                    return Err(format!("powspace: element {} = {:e}, expected {:e}", i, v[i], e));
                }
            }
        }
    }
    Ok(())
}

impl Prop for C15 {
    fn id(&self) -> &'static str {
        "C15"
    }
    fn rule(&self) -> String {
        "case families: (0-2) arithmetic over {rationals, small-integer f64, Gaussian-integer Complex<f64>}, length 0..=64: every element-wise operator in borrowed/owned form, scalar ops, all compound assignments, dot, constructors, \
         sum_slice/product_slice for every (start,end) when n <= 12 and random ranges beyond, sum/product, abs, norm_1, against a Vec model, exactly; (3) Vector<Complex<Rat>> conj/real and Complex<f64> norm_inf; \
         (4) f64 norms with |x| in {0} U [1e-100,1e100] (p-norm: [1e-30,1e30], p in [1,8]) against double-double, and the norm laws (non-negativity, homogeneity, triangle inequality, inf <= 2 <= 1 and inf <= p <= 1) with a few-ulp slack, f64*Vector; p is an integer, continuous in [1,8], or 1+d / 2+-d with d = 1e-12..1e-5; (4b) norm_inf and norm_1 over the whole finite range (|x| in 1e-300..1e300, all tiny / all huge / mixed); \
         (5) histories of <= 40 edits (push, push_front, insert, pop, swap, resize, assign, clear, sort, sort_by, find, index write, clone) against a Vec model compared after every step; (6) linspace/powspace with 2..=64 points (one case in eight 65..=4000), integer exponents 1..=8 half of the time: \
         end points from scale menus and, one case in four, only 0..299 ulps apart; first element exactly a, last within 8 eps*max(|a|,|b|) of b, weakly monotone, elements within rounding of the defining formula; random(n) in [0,1). sum/product/norm_inf/find on the empty vector are not asserted. \
         Non-trivial: history of >= 6 steps with a size-changing step before an index-dependent one; reductions over a strict sub-range of a vector of length >= 3; every sequence case. distinct = distinct decoded choice sequence."
            .into()
    }
    fn assumptions(&self) -> Vec<String> {
        vec!["norm tolerances: 4 eps (n+4) relative for 1-/2-norm, 16 eps (n+4) for the p-norm; law slack 8 eps (n+4)".into()]
    }
    fn stream_len(&self, _tier: Tier) -> usize {
        360
    }
    fn random_cases(&self, tier: Tier) -> usize {
        tier.pick(400_000, 6_000_000)
    }
    fn run(&self, case: &mut Case) -> Outcome {
        let r = match case.src.below(10) {
            0 => arithmetic::<Rat>(case),
            1 => arithmetic::<f64>(case),
            2 => arithmetic::<Cmplx>(case),
            3 => complex_parts(case),
            4 | 5 => norms(case),
            6 | 7 => history(case),
            8 => sequences(case),
            _ => extreme_norms(case),
        };
        match r {
            Ok(()) => Outcome::Pass,
            Err(m) => Outcome::Fail(m),
        }
    }
}
