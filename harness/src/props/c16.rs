//! C16 — the threaded dot product equals the sequential one for every length and CPU count.

use super::util::EPS;
use crate::engine::{catch, Case, Outcome, Prop, Tier};
use crate::stream::raw_for;
use ohsl::Vector;
use std::sync::atomic::{AtomicBool, AtomicUsize, Ordering};
use std::sync::OnceLock;

pub struct C16;

fn current_cpus() -> Vec<usize> {
    unsafe {
        let mut set: libc::cpu_set_t = std::mem::zeroed();
        if libc::sched_getaffinity(0, std::mem::size_of::<libc::cpu_set_t>(), &mut set) != 0 {
            return vec![0];
        }
        (0..libc::CPU_SETSIZE as usize).filter(|&i| libc::CPU_ISSET(i, &set)).collect()
    }
}
fn set_cpus(cpus: &[usize]) -> bool {
    unsafe {
        let mut set: libc::cpu_set_t = std::mem::zeroed();
        libc::CPU_ZERO(&mut set);
        for &c in cpus {
            libc::CPU_SET(c, &mut set);
        }
        libc::sched_setaffinity(0, std::mem::size_of::<libc::cpu_set_t>(), &set) == 0
    }
}
/// CPUs this process may use (measured once, before any restriction)
fn allowed() -> &'static Vec<usize> {
    static A: OnceLock<Vec<usize>> = OnceLock::new();
    A.get_or_init(current_cpus)
}
static LOAD_WANTED: AtomicUsize = AtomicUsize::new(0);
struct Load;
impl Load {
    fn on() -> Load {
        LOAD_WANTED.fetch_add(1, Ordering::SeqCst);
        Load
    }
}
impl Drop for Load {
    fn drop(&mut self) {
        LOAD_WANTED.fetch_sub(1, Ordering::SeqCst);
    }
}
/// background load: a few threads that spin while a determinism case is running
fn start_spinners() {
    static STARTED: AtomicBool = AtomicBool::new(false);
    if STARTED.swap(true, Ordering::SeqCst) {
        return;
    }
    for _ in 0..3 {
        std::thread::spawn(|| {
            let mut x = 1u64;
            loop {
                if LOAD_WANTED.load(Ordering::Relaxed) == 0 {
                    std::thread::sleep(std::time::Duration::from_micros(300));
                    continue;
                }
                for _ in 0..50_000 {
                    x = x.wrapping_mul(6364136223846793005).wrapping_add(1442695040888963407);
                }
                std::hint::black_box(x);
                std::thread::yield_now();
            }
        });
    }
}

struct Restore;
impl Drop for Restore {
    fn drop(&mut self) {
        set_cpus(allowed());
    }
}

fn run(case: &mut Case) -> Result<Outcome, String> {
    let k = 1 + case.src.usize_below(16);
    let long = case.src.below(2) == 1;
    // long vectors: usually a few thousand elements, one time in three 2e4 .. 1.5e6 (log-uniform): an implementation may
    // switch strategy (blocks, a sequential fallback, another partition) at any size
    let very_long = long && case.src.below(3) == 0;
    let n = if very_long {
        (2e4 * (75.0f64).powf(case.src.f64_in(0.0, 1.0))) as usize
    } else if long {
        201 + case.src.usize_below(case.tier.pick(20_000, 100_000))
    } else {
        case.src.usize_below(201)
    };
    let kind = case.src.below(3);
    // data of long vectors come from a splitmix64 sequence seeded by two stream values (a pure function of the stream;
    // drawing a million values from the stream itself would exhaust it)
    let mut sm: u64 = ((case.src.raw() as u64) << 32) | case.src.raw() as u64;
    let mut next = move || -> u64 {
        sm = sm.wrapping_add(0x9E3779B97F4A7C15);
        let mut z = sm;
        z = (z ^ (z >> 30)).wrapping_mul(0xBF58476D1CE4E5B9);
        z = (z ^ (z >> 27)).wrapping_mul(0x94D049BB133111EB);
        z ^ (z >> 31)
    };
    if very_long {
        case.class("very long (2e4 .. 1.5e6 elements)");
    }
    let all = allowed();
    if k > all.len() {
        case.class(format!("not covered: {} workers requested, {} CPUs available", k, all.len()));
        return Ok(Outcome::Discard("worker count not available in this environment"));
    }
    // choose a CPU subset of size k (start offset from the stream) and restrict this thread to it
    let off = case.src.usize_below(all.len());
    let subset = |o: usize| -> Vec<usize> { (0..k).map(|i| all[(o + i) % all.len()]).collect() };
    let _restore = Restore;
    if !set_cpus(&subset(off)) {
        return Ok(Outcome::Discard("sched_setaffinity refused"));
    }
    let workers = num_cpus::get();
    if workers != k {
        case.class(format!("not covered: affinity of {} CPUs but num_cpus::get() = {}", k, workers));
        return Ok(Outcome::Discard("num_cpus::get() does not follow the affinity (cgroup quota?)"));
    }
    case.class(format!("workers={}", k));
    case.class(format!("{} kind={}", if long { "long" } else { "short" }, ["exact-integers", "random", "determinism"][kind as usize]));
    if n < k {
        case.class("length < workers");
        case.mark_nontrivial();
    } else if n > k && n % k != 0 {
        case.class("length not divisible by workers");
        case.mark_nontrivial();
    } else if n == k {
        case.class("length == workers");
    }
    match kind {
        0 => {
            // integer-valued data: every partial sum is exact, so any association gives the same bits
            let (xi, yi): (Vec<f64>, Vec<f64>) = if long {
                let a: Vec<f64> = (0..n).map(|_| (next() % 2001) as f64 - 1000.0).collect();
                let b: Vec<f64> = (0..n).map(|_| (next() % 2001) as f64 - 1000.0).collect();
                (a, b)
            } else {
                ((0..n).map(|_| case.src.small_int(1000) as f64).collect(), (0..n).map(|_| case.src.small_int(1000) as f64).collect())
            };
            let exact: i128 = xi.iter().zip(&yi).map(|(a, b)| (*a as i128) * (*b as i128)).sum();
            // the same integers at other (exact power-of-two) scales: every product and partial sum stays exact,
            // also when the products are subnormal (e1 + e2 down to -1060) or huge
            // (one scaled case in three has both exponents in -530..-500: the products are then subnormal numbers)
            let (e1, e2) = if case.src.below(3) == 0 {
                if case.src.below(3) == 0 { (case.src.range(-530, -500) as i32, case.src.range(-530, -500) as i32) } else { (case.src.range(-530, 450) as i32, case.src.range(-530, 450) as i32) }
            } else {
                (0, 0)
            };
            let x: Vec<f64> = xi.iter().map(|v| v * 2f64.powi(e1)).collect();
            let y: Vec<f64> = yi.iter().map(|v| v * 2f64.powi(e2)).collect();
            case.describe(|| format!("workers={} n={} integer data * 2^{} / 2^{}: x[..8]={:?} y[..8]={:?}", k, n, e1, e2, &xi[..n.min(8)], &yi[..n.min(8)]));
            let (vx, vy) = (Vector::create(x.clone()), Vector::create(y.clone()));
            if e1 != 0 || e2 != 0 {
                case.class("exact data scaled by powers of two");
                let got = match catch(|| vx.dot_f64(&vy)) {
                    Ok(v) => v,
                    Err(e) => return Err(format!("dot_f64 panicked with {} workers and length {}: {}", k, n, e)),
                };
                let seq = vx.dot(&vy);
                let want = (exact as f64) * 2f64.powi(e1) * 2f64.powi(e2);
                if got.to_bits() != seq.to_bits() && got != seq {
                    return Err(format!("dot_f64 = {:e} differs from dot = {:e} on exactly summable data scaled by 2^{} and 2^{} ({} workers, length {})", got, seq, e1, e2, k, n));
                }
                if got != want {
                    return Err(format!("dot_f64 = {:e}, exact value {:e} (integers scaled by 2^{} and 2^{}; {} workers, length {})", got, want, e1, e2, k, n));
                }
                return Ok(Outcome::Pass);
            }
            // the same object on both sides
            {
                let selfdot = vx.dot_f64(&vx);
                let want: i128 = xi.iter().map(|a| (*a as i128) * (*a as i128)).sum();
                if selfdot != want as f64 || selfdot != vx.dot(&vx) {
                    return Err(format!("v.dot_f64(&v) = {} but the exact value is {} (sequential {}) with {} workers, length {}", selfdot, want, vx.dot(&vx), k, n));
                }
            }
            let got = match catch(|| vx.dot_f64(&vy)) {
                Ok(v) => v,
                Err(e) => return Err(format!("dot_f64 panicked with {} workers and length {}: {}", k, n, e)),
            };
            let seq = vx.dot(&vy);
            if got.to_bits() != (exact as f64).to_bits() && !(got == 0.0 && exact == 0) {
                return Err(format!("dot_f64 = {} with {} workers, length {}; exact integer dot product {} (sequential dot {})", got, k, n, exact, seq));
            }
            if got != seq {
                return Err(format!("dot_f64 = {} differs from dot = {} on exactly summable data ({} workers, length {})", got, seq, k, n));
            }
            if vx.vec != x || vy.vec != y {
                return Err("dot_f64 modified an operand".into());
            }
        }
        1 => {
            let mut lg = || -> f64 {
                let u = (next() >> 11) as f64 / (1u64 << 53) as f64;
                let m = 10f64.powf(-5.0 + 10.0 * u);
                if next() & 1 == 0 { m } else { -m }
            };
            let (x, y): (Vec<f64>, Vec<f64>) = if long {
                ((0..n).map(|_| lg()).collect(), (0..n).map(|_| lg()).collect())
            } else {
                ((0..n).map(|_| crate::gen::f64_log(&mut case.src, -5.0, 5.0)).collect(), (0..n).map(|_| crate::gen::f64_log(&mut case.src, -5.0, 5.0)).collect())
            };
            case.describe(|| format!("workers={} n={} random data x[..4]={:?}", k, n, &x[..n.min(4)]));
            let (vx, vy) = (Vector::create(x.clone()), Vector::create(y.clone()));
            let got = match catch(|| vx.dot_f64(&vy)) {
                Ok(v) => v,
                Err(e) => return Err(format!("dot_f64 panicked with {} workers and length {}: {}", k, n, e)),
            };
            let seq = vx.dot(&vy);
            let mag: f64 = x.iter().zip(&y).map(|(a, b)| (a * b).abs()).sum();
            if !((got - seq).abs() <= 2.0 * (n as f64 + 1.0) * EPS * mag) {
                return Err(format!("dot_f64 = {:e}, dot = {:e}: difference beyond reassociation ({} workers, length {})", got, seq, k, n));
            }
        }
        _ => {
            // cancellation-prone data: repeated calls under load and with a moving CPU set must be bit-identical
            start_spinners();
            let _load = Load::on();
            let mut un = |lo: f64, hi: f64| -> f64 { lo + (hi - lo) * ((next() >> 11) as f64 / (1u64 << 53) as f64) };
            let (x, y): (Vec<f64>, Vec<f64>) = if long {
                ((0..n).map(|i| if i % 2 == 0 { 1e15 + un(0.0, 1e3) } else { -1e15 + un(0.0, 1e3) }).collect(), (0..n).map(|_| un(0.5, 1.5)).collect())
            } else {
                ((0..n).map(|i| if i % 2 == 0 { 1e15 + case.src.f64_in(0.0, 1e3) } else { -1e15 + case.src.f64_in(0.0, 1e3) }).collect(), (0..n).map(|_| case.src.f64_in(0.5, 1.5)).collect())
            };
            case.describe(|| format!("workers={} n={} cancellation-prone data, repeated calls", k, n));
            let (vx, vy) = (Vector::create(x), Vector::create(y));
            let first = match catch(|| vx.dot_f64(&vy)) {
                Ok(v) => v,
                Err(e) => return Err(format!("dot_f64 panicked with {} workers and length {}: {}", k, n, e)),
            };
            let reps = if n > 2000 { 4 } else { case.tier.pick(6, 20) };
            for r in 1..=reps {
                // same number of CPUs, different set
                set_cpus(&subset(off + r));
                if num_cpus::get() != k {
                    return Ok(Outcome::Discard("num_cpus::get() changed while moving the CPU set"));
                }
                let again = vx.dot_f64(&vy);
                if again.to_bits() != first.to_bits() {
                    return Err(format!("dot_f64 is not deterministic: call 1 gave {:e} ({:#x}), call {} gave {:e} ({:#x}) with {} workers, length {}", first, first.to_bits(), r + 1, again, again.to_bits(), k, n));
                }
            }
        }
    }
    Ok(Outcome::Pass)
}

impl Prop for C16 {
    fn id(&self) -> &'static str {
        "C16"
    }
    fn rule(&self) -> String {
        "stream prefix (workers k in 1..=16, short/long, length, data kind): all 16 x 201 combinations of k and length 0..=200 are enumerated in every run for the exact-integer data kind (and for the other two kinds over all lengths <= 17 plus a stride in the quick tier, all lengths in the thorough tier), plus random lengths up to 20000 (thorough 100000) and, one long case in three, 2e4 .. 1.5e6 (log-uniform; data of long vectors from a splitmix64 sequence seeded by the stream); \
         the calling thread is restricted with sched_setaffinity to a k-CPU subset and num_cpus::get() is observed in-process (k not granted by the environment => counted as not covered). \
         Data kinds: integer-valued data whose partial sums are exact, one third of it scaled by exact powers of two 2^-530..2^450 per vector so that products may be subnormal or huge (dot_f64 bit-identical to dot and to an exact i128 dot product; also for the aliased call v.dot_f64(&v)), random data of magnitude 1e-5..1e5 (|dot_f64 - dot| <= 2(n+1) eps sum|x_i y_i|), \
         cancellation-prone data (+-1e15 alternating) called 5 to 21 times while spinner threads load the CPUs and the CPU set (same size) moves between calls: all results bit-identical. \
         Non-trivial: length < workers, or length > workers and not divisible by it. distinct = distinct decoded choice sequence."
            .into()
    }
    fn assumptions(&self) -> Vec<String> {
        vec![
            "the worker count is the one num_cpus::get() reports under the affinity set by the harness; the OS scheduler is not controlled, repetition only samples interleavings (see DESIGN.md section 8)".into(),
        ]
    }
    fn stream_len(&self, tier: Tier) -> usize {
        tier.pick(700, 4000)
    }
    fn random_cases(&self, tier: Tier) -> usize {
        tier.pick(300, 8_000)
    }
    fn enum_prefixes(&self, tier: Tier) -> Vec<Vec<u32>> {
        let mut v = Vec::new();
        for k in 0..16u32 {
            for n in 0..201u32 {
                for kind in 0..3u32 {
                    // quick: every (k, length) for the exact-integer oracle, a stride of lengths (offset by k, so that
                    // every residue is met) for the other two kinds; thorough: everything
                    let take = match (tier, kind) {
                        (Tier::Thorough, _) | (_, 0) => true,
                        (_, 1) => (n + k) % 4 == 0 || n <= 17,
                        _ => (n + k) % 8 == 0 || n <= 17,
                    };
                    if take {
                        v.push(vec![raw_for(k, 16), raw_for(0, 2), raw_for(n, 201), raw_for(kind, 3)]);
                    }
                }
            }
        }
        v
    }
    fn enum_reps(&self, tier: Tier) -> usize {
        tier.pick(1, 4)
    }
    fn enum_note(&self, _tier: Tier) -> Option<String> {
        Some("all (workers 1..=16) x (length 0..=200) for the exact-integer oracle in both tiers; for the random-data and determinism oracles all lengths <= 17 plus a stride of 4 / 8 (quick) or all lengths (thorough); worker counts the environment does not grant are reported as discards".into())
    }
    fn parallel(&self) -> bool {
        // one engine thread: the CPU sets of concurrent cases would overlap and starve each other
        false
    }
    fn run(&self, case: &mut Case) -> Outcome {
        match run(case) {
            Ok(o) => o,
            Err(m) => Outcome::Fail(m),
        }
    }
}
