//! C20 — mismatched shapes are rejected; operands are never mutated; clones are independent.

use super::util::{from_matrix, to_matrix};
use crate::engine::{catch, Case, Outcome, Prop, Tier};
use crate::gen;
use crate::rat::Rat;
use crate::refla::M;
use crate::stream::{raw_for, Src};
use ohsl::{Banded, Cmplx, Matrix, Mesh1D, Mesh2D, Polynomial, Sparse, Tridiagonal, Vector};

pub struct C20;

type R = Rat;

fn rv(src: &mut Src, n: usize) -> Vector<R> {
    Vector::create((0..n).map(|_| gen::rat(src)).collect())
}
fn fv(src: &mut Src, n: usize) -> Vector<f64> {
    Vector::create((0..n).map(|_| src.small_int(9) as f64 + 0.5).collect())
}
fn rm(src: &mut Src, r: usize, c: usize) -> Matrix<R> {
    let a: M<R> = (0..r).map(|_| (0..c).map(|_| gen::rat(src)).collect()).collect();
    to_matrix(&a, r, c)
}
fn band(src: &mut Src, n: usize, m1: usize, m2: usize) -> Banded<R> {
    let mut b = Banded::<R>::new(n, m1, m2, Rat::int(0));
    for i in 0..n {
        for j in 0..n {
            if j <= i + m2 && i <= j + m1 {
                b[(i, j)] = gen::rat(src);
            }
        }
    }
    b
}
fn tri(src: &mut Src, n: usize) -> Tridiagonal<R> {
    Tridiagonal::with_vecs((0..n - 1).map(|_| gen::rat(src)).collect(), (0..n).map(|_| gen::rat_nz(src)).collect(), (0..n - 1).map(|_| gen::rat(src)).collect())
}
fn sp(src: &mut Src, rows: usize, cols: usize) -> Sparse<f64> {
    let mut t = Vec::new();
    for i in 0..rows {
        for j in 0..cols {
            if i == j || src.below(3) == 0 {
                t.push((i, j, src.small_int(5) as f64 + if i == j { 8.0 } else { 0.0 }));
            }
        }
    }
    Sparse::from_triplets(rows, cols, &mut t)
}
fn sp_snapshot(s: &Sparse<f64>) -> (usize, usize, usize, Vec<u64>, Vec<usize>, Vec<usize>) {
    (s.rows, s.cols, s.nonzero, s.val.iter().map(|v| v.to_bits()).collect(), s.row_index.clone(), s.col_start.clone())
}

/// the call must panic; a returned value is a violation
fn must_panic<T>(what: &str, f: impl FnOnce() -> T) -> Result<(), String> {
    match catch(f) {
        Ok(_) => Err(format!("{}: returned normally instead of panicking", what)),
        Err(_) => Ok(()),
    }
}
fn must_return<T>(what: &str, f: impl FnOnce() -> T) -> Result<T, String> {
    catch(f).map_err(|e| format!("{}: panicked on conformable operands: {}", what, e))
}
fn unchanged<T: PartialEq + std::fmt::Debug>(what: &str, before: &T, after: &T) -> Result<(), String> {
    if before == after {
        Ok(())
    } else {
        Err(format!("{}: the receiver was modified before the call panicked: {:?} -> {:?}", what, before, after))
    }
}
/// an out-of-range argument for a dimension of size n: n, n+1 or usize::MAX
fn oob(n: usize, which: u32) -> usize {
    match which {
        0 => n,
        1 => n + 1,
        _ => usize::MAX,
    }
}

pub const N_ENTRIES: u32 = 66;

/// One checked entry point.  `a`,`b` in 0..=6 are the two sizes; they are mismatched when a != b
/// (for a == b the conformable call must succeed).  `w` selects the out-of-range variant.
fn entry(e: u32, a: usize, b: usize, w: u32, src: &mut Src) -> Result<&'static str, String> {
    let mism = a != b;
    macro_rules! pair {
        ($name:expr, $call:expr) => {{
            if mism {
                must_panic($name, $call)?;
            } else {
                must_return($name, $call)?;
            }
            return Ok($name);
        }};
    }
    match e {
        // ------------------------------------------------------------ Vector
        0 => { let (x, y) = (rv(src, a), rv(src, b)); pair!("&Vector + &Vector", || &x + &y) }
        1 => { let (x, y) = (rv(src, a), rv(src, b)); pair!("Vector + &Vector", || x + &y) }
        2 => { let (x, y) = (rv(src, a), rv(src, b)); pair!("Vector + Vector", || x + y) }
        3 => { let (x, y) = (rv(src, a), rv(src, b)); pair!("&Vector - &Vector", || &x - &y) }
        4 => { let (x, y) = (rv(src, a), rv(src, b)); pair!("Vector - &Vector", || x - &y) }
        5 => { let (x, y) = (rv(src, a), rv(src, b)); pair!("Vector - Vector", || x - y) }
        6 | 7 => {
            let (mut x, y) = (rv(src, a), rv(src, b));
            let snap = x.vec.clone();
            let name = if e == 6 { "Vector += Vector" } else { "Vector -= Vector" };
            let r = catch(|| if e == 6 { x += y } else { x -= y });
            if mism {
                if r.is_ok() {
                    return Err(format!("{}: returned normally instead of panicking", name));
                }
                unchanged(name, &snap, &x.vec)?;
            } else if let Err(m) = r {
                return Err(format!("{}: panicked on conformable operands: {}", name, m));
            }
            Ok(name)
        }
        8 => { let (x, y) = (rv(src, a), rv(src, b)); pair!("Vector::dot", || x.dot(&y)) }
        9 => { let (x, y) = (fv(src, a), fv(src, b)); pair!("Vector::dot_f64", || x.dot_f64(&y)) }
        10 | 11 => {
            // range reductions: start > end, start or end beyond the last element
            let n = a.max(1);
            let x = rv(src, n);
            let name = if e == 10 { "Vector::sum_slice range" } else { "Vector::product_slice range" };
            let s = src.usize_below(n);
            let bad: [(usize, usize); 4] = [(s + 1, s), (oob(n, w), oob(n, w)), (s, oob(n, w)), (oob(n, w), s)];
            for (st, en) in bad {
                must_panic(name, || if e == 10 { x.sum_slice(st, en) } else { x.product_slice(st, en) })?;
            }
            must_return(name, || if e == 10 { x.sum_slice(s, n - 1) } else { x.product_slice(s, n - 1) })?;
            Ok(name)
        }
        12 => {
            let mut x = rv(src, a);
            let snap = x.vec.clone();
            let i = oob(a, w);
            must_panic("Vector index", || x[i])?;
            must_panic("Vector index_mut", || x[i] = Rat::int(1))?;
            must_panic("Vector::swap", || x.swap(i, 0))?;
            must_panic("Vector::insert past the end", || x.insert(oob(a, w.max(1)), Rat::int(1)))?;
            unchanged("Vector index_mut/swap/insert", &snap, &x.vec)?;
            let mut e0 = Vector::<R>::empty();
            must_panic("Vector::pop on an empty vector", || e0.pop())?;
            Ok("Vector index/swap/insert/pop")
        }
        // ------------------------------------------------------------ Matrix (a x c) vs (b x c) and (c x a) vs (c x b)
        13..=20 => {
            let c = src.usize_below(5);
            let rows_differ = src.coin();
            let (x, y) = if rows_differ { (rm(src, a, c), rm(src, b, c)) } else { (rm(src, c, a), rm(src, c, b)) };
            let snap = from_matrix(&x);
            let mut xm = x.clone();
            let name: &'static str = ["&Matrix + &Matrix", "Matrix + Matrix", "&Matrix - &Matrix", "Matrix - Matrix", "Matrix += &Matrix", "Matrix += Matrix", "Matrix -= &Matrix", "Matrix -= Matrix"][(e - 13) as usize];
            // with c == 0 and differing column counts both matrices are empty-row: shapes still differ (0 x a vs 0 x b)
            let r = match e {
                13 => catch(|| { let _ = &x + &y; }),
                14 => catch(|| { let _ = x.clone() + y.clone(); }),
                15 => catch(|| { let _ = &x - &y; }),
                16 => catch(|| { let _ = x.clone() - y.clone(); }),
                17 => catch(|| xm += &y),
                18 => catch(|| xm += y.clone()),
                19 => catch(|| xm -= &y),
                _ => catch(|| xm -= y.clone()),
            };
            if mism {
                if r.is_ok() {
                    return Err(format!("{}: {}x{} with {}x{} returned normally instead of panicking", name, x.rows(), x.cols(), y.rows(), y.cols()));
                }
                if e >= 17 && from_matrix(&xm) != snap {
                    return Err(format!("{}: the receiver was modified before the call panicked", name));
                }
            } else if let Err(m) = r {
                return Err(format!("{}: panicked on conformable operands: {}", name, m));
            }
            Ok(name)
        }
        21 | 22 => {
            let (r, c) = (src.usize_below(5), src.usize_below(5));
            let (x, y) = (rm(src, r, a), rm(src, b, c));
            if e == 21 { pair!("&Matrix * &Matrix", || &x * &y) } else { pair!("Matrix * Matrix", || x * y) }
        }
        23..=25 => {
            let r = src.usize_below(5);
            let (x, v) = (rm(src, r, a), rv(src, b));
            match e {
                23 => pair!("Matrix::multiply", || x.multiply(&v)),
                24 => pair!("&Matrix * &Vector", || &x * &v),
                _ => pair!("Matrix * Vector", || x * v),
            }
        }
        26 => {
            let c = src.usize_below(5);
            let x = rm(src, a, c);
            must_panic("Matrix::get_row out of range", || x.get_row(oob(a, w)))?;
            let y = rm(src, c, a);
            must_panic("Matrix::get_col out of range", || y.get_col(oob(a, w)))?;
            Ok("Matrix::get_row/get_col out of range")
        }
        27 => {
            // set_row: wrong vector size / row out of range
            let r = 1 + src.usize_below(5);
            let mut x = rm(src, r, a);
            let snap = from_matrix(&x);
            let row = src.usize_below(r);
            let v = rv(src, b);
            let res = catch(|| x.set_row(row, v));
            if mism {
                if res.is_ok() {
                    return Err("Matrix::set_row with a vector of the wrong size returned normally".into());
                }
                unchanged("Matrix::set_row (wrong size)", &snap, &from_matrix(&x))?;
            } else if let Err(m) = res {
                return Err(format!("Matrix::set_row panicked on conformable operands: {}", m));
            }
            let mut x = rm(src, r, a);
            let snap = from_matrix(&x);
            let v = rv(src, a);
            must_panic("Matrix::set_row row out of range", || x.set_row(oob(r, w), v))?;
            unchanged("Matrix::set_row (row out of range)", &snap, &from_matrix(&x))?;
            Ok("Matrix::set_row")
        }
        28 => {
            // set_col: wrong vector size / column out of range - on wide, square and TALL matrices
            let c = 1 + src.usize_below(5);
            let mut x = rm(src, a, c);
            let snap = from_matrix(&x);
            let col = src.usize_below(c);
            let v = rv(src, b);
            let res = catch(|| x.set_col(col, v));
            if mism {
                if res.is_ok() {
                    return Err("Matrix::set_col with a vector of the wrong size returned normally".into());
                }
                unchanged("Matrix::set_col (wrong size)", &snap, &from_matrix(&x))?;
            } else if let Err(m) = res {
                return Err(format!("Matrix::set_col panicked on conformable operands ({}x{}, col {}): {}", a, c, col, m));
            }
            for rows in [a, b, 6] {
                let mut x = rm(src, rows, c);
                let snap = from_matrix(&x);
                let v = rv(src, rows);
                let col = oob(c, w);
                must_panic("Matrix::set_col column out of range", || x.set_col(col, v))?;
                if from_matrix(&x) != snap {
                    return Err(format!("Matrix::set_col({}, ..) on a {}x{} matrix wrote to storage of other elements before panicking: {:?} -> {:?}", col, rows, c, snap, from_matrix(&x)));
                }
            }
            Ok("Matrix::set_col")
        }
        29 => {
            let c = src.usize_below(5);
            let mut x = rm(src, a, c);
            let snap = from_matrix(&x);
            must_panic("Matrix::delete_row out of range", || x.delete_row(oob(a, w)))?;
            must_panic("Matrix::swap_rows out of range", || x.swap_rows(oob(a, w), 0))?;
            must_panic("Matrix::swap_rows out of range (second)", || x.swap_rows(0, oob(a, w)))?;
            must_panic("Matrix::fill_row out of range", || x.fill_row(oob(a, w), Rat::int(7)))?;
            unchanged("Matrix::delete_row/swap_rows/fill_row", &snap, &from_matrix(&x))?;
            let mut y = rm(src, c, a);
            let snap = from_matrix(&y);
            must_panic("Matrix::fill_col out of range", || y.fill_col(oob(a, w), Rat::int(7)))?;
            unchanged("Matrix::fill_col", &snap, &from_matrix(&y))?;
            Ok("Matrix::delete_row/swap_rows/fill_row/fill_col out of range")
        }
        30..=33 => {
            // dense solvers: rows != b.size(), and non-square
            let n = a.max(1);
            let name: &'static str = ["Matrix::solve_basic", "Matrix::solve_lu", "Matrix::solve_basic (non-square)", "Matrix::solve_lu (non-square)"][(e - 30) as usize];
            if e <= 31 {
                let mut x = Matrix::<R>::eye(n);
                let v = rv(src, if mism { b } else { n });
                let bad = v.size() != n;
                let r = catch(|| if e == 30 { x.solve_basic(&v) } else { x.solve_lu(&v) });
                if bad && r.is_ok() {
                    return Err(format!("{}: right-hand side of size {} for a {}x{} matrix returned normally", name, v.size(), n, n));
                }
                if !bad {
                    r.map_err(|m| format!("{}: panicked on a conformable system: {}", name, m))?;
                }
            } else if mism {
                let mut x = rm(src, a, b);
                let v = rv(src, a);
                must_panic(name, || if e == 32 { x.solve_basic(&v) } else { x.solve_lu(&v) })?;
            }
            Ok(name)
        }
        34 => {
            if mism {
                let x = rm(src, a, b);
                must_panic("Matrix::inverse (non-square)", || x.inverse())?;
                must_panic("Matrix::determinant (non-square)", || x.determinant())?;
                let mut y = x.clone();
                must_panic("Matrix::lu_decomp_in_place (non-square)", || y.lu_decomp_in_place())?;
            }
            Ok("Matrix::inverse/determinant/lu_decomp_in_place non-square")
        }
        // ------------------------------------------------------------ Banded
        35..=44 => {
            let n = a.max(1);
            let n2 = b.max(1);
            let (m1, m2) = (src.usize_below(n), src.usize_below(n));
            let x = band(src, n, m1, m2);
            let name: &'static str = ["Banded::solve", "&Banded * &Vector", "Banded * Vector", "&Banded + &Banded", "Banded + Banded", "&Banded - &Banded", "Banded - Banded", "Banded += (&)Banded", "Banded -= (&)Banded", "Banded::fill_band"][(e - 35) as usize];
            match e {
                35..=37 => {
                    let v = rv(src, n2);
                    let bad = n2 != n;
                    let r = match e {
                        35 => {
                            // a solvable system: identity band
                            let mut id = Banded::<R>::new(n, m1, m2, Rat::int(0));
                            for i in 0..n {
                                id[(i, i)] = Rat::int(1);
                            }
                            catch(|| { let _ = id.solve(&v); })
                        }
                        36 => catch(|| { let _ = &x * &v; }),
                        _ => catch(|| { let _ = x.clone() * v.clone(); }),
                    };
                    if bad && r.is_ok() {
                        return Err(format!("{}: vector of size {} for n = {} returned normally", name, n2, n));
                    }
                    if !bad {
                        r.map_err(|m| format!("{}: panicked on conformable operands: {}", name, m))?;
                    }
                }
                38..=43 => {
                    // mismatch in n, m1 or m2
                    let which = src.below(4);
                    let (yn, ym1, ym2) = match which {
                        0 => (n2.max(m1.max(m2) + 1), m1, m2),
                        1 => (n, (m1 + 1 + src.usize_below(2)) % (n + 2), m2),
                        2 => (n, m1, (m2 + 1 + src.usize_below(2)) % (n + 2)),
                        // same size and same total bandwidth, different split (the compact storage has the same shape)
                        _ => if m2 >= 1 { (n, m1 + 1, m2 - 1) } else if m1 >= 1 { (n, m1 - 1, m2 + 1) } else { (n, m1 + 1, m2) },
                    };
                    let y = band(src, yn, ym1, ym2);
                    let bad = (yn, ym1, ym2) != (n, m1, m2);
                    let mut xm = x.clone();
                    let snap = from_matrix(xm.compact());
                    let by_ref = src.coin();
                    let r = match e {
                        38 => catch(|| { let _ = &x + &y; }),
                        39 => catch(|| { let _ = x.clone() + y.clone(); }),
                        40 => catch(|| { let _ = &x - &y; }),
                        41 => catch(|| { let _ = x.clone() - y.clone(); }),
                        42 => catch(|| if by_ref { xm += &y } else { xm += y.clone() }),
                        _ => catch(|| if by_ref { xm -= &y } else { xm -= y.clone() }),
                    };
                    if bad {
                        if r.is_ok() {
                            return Err(format!("{}: (n,m1,m2) = ({},{},{}) with ({},{},{}) returned normally", name, n, m1, m2, yn, ym1, ym2));
                        }
                        if from_matrix(xm.compact()) != snap {
                            return Err(format!("{}: the receiver was modified before the call panicked", name));
                        }
                    } else {
                        r.map_err(|m| format!("{}: panicked on conformable operands: {}", name, m))?;
                    }
                }
                _ => {
                    let mut xm = x.clone();
                    let snap = from_matrix(xm.compact());
                    let band_no = if src.coin() { -((m1 + 1 + w as usize) as isize) } else { (m2 + 1 + w as usize) as isize };
                    must_panic("Banded::fill_band out of range", || xm.fill_band(band_no, Rat::int(3)))?;
                    unchanged("Banded::fill_band", &snap, &from_matrix(xm.compact()))?;
                    // index outside the band (both indices inside the matrix)
                    if n >= 2 && m2 + 1 < n {
                        must_panic("Banded index above the band", || x[(0, m2 + 1)])?;
                    }
                    if n >= 2 && m1 + 1 < n {
                        must_panic("Banded index below the band", || x[(m1 + 1, 0)])?;
                    }
                }
            }
            Ok(name)
        }
        // ------------------------------------------------------------ Tridiagonal
        45..=51 => {
            let n = a.max(1);
            let n2 = b.max(1);
            let name: &'static str = ["Tridiagonal::with_vectors", "Tridiagonal::with_vecs", "Tridiagonal::solve", "Tridiagonal + Tridiagonal", "Tridiagonal - Tridiagonal", "&Tridiagonal * &Vector / Tridiagonal * Vector", "Tridiagonal index"][(e - 45) as usize];
            match e {
                45 | 46 => {
                    // sub / super diagonals of the wrong length
                    let (ls, lp) = if src.coin() { (n2, n - 1) } else { (n - 1, n2) };
                    let bad = ls != n - 1 || lp != n - 1;
                    let (s, m, p) = (rv(src, ls), rv(src, n), rv(src, lp));
                    let r = if e == 45 { catch(|| { let _ = Tridiagonal::with_vectors(s, m, p); }) } else { catch(|| { let _ = Tridiagonal::with_vecs(s.vec, m.vec, p.vec); }) };
                    if bad && r.is_ok() {
                        return Err(format!("{}: diagonals of length {}/{}/{} accepted", name, ls, n, lp));
                    }
                    if !bad {
                        r.map_err(|m| format!("{}: panicked on valid lengths: {}", name, m))?;
                    }
                }
                47 => {
                    let t = Tridiagonal::<R>::with_elements(Rat::int(0), Rat::int(1), Rat::int(0), n);
                    let v = rv(src, n2);
                    let r = catch(|| { let _ = t.solve(&v); });
                    if n2 != n && r.is_ok() {
                        return Err(format!("{}: right-hand side of size {} for n = {} returned normally", name, n2, n));
                    }
                    if n2 == n {
                        r.map_err(|m| format!("{}: panicked on a conformable system: {}", name, m))?;
                    }
                }
                48 | 49 => {
                    let (t, u) = (tri(src, n), tri(src, n2));
                    let r = if e == 48 { catch(|| { let _ = t + u; }) } else { catch(|| { let _ = t - u; }) };
                    if n2 != n && r.is_ok() {
                        return Err(format!("{}: sizes {} and {} returned normally", name, n, n2));
                    }
                    if n2 == n {
                        r.map_err(|m| format!("{}: panicked on conformable operands: {}", name, m))?;
                    }
                }
                50 => {
                    let t = tri(src, n);
                    let v = rv(src, n2);
                    let r1 = catch(|| { let _ = &t * &v; });
                    let r2 = catch(|| { let _ = t.clone() * v.clone(); });
                    if n2 != n && (r1.is_ok() || r2.is_ok()) {
                        return Err(format!("{}: vector of size {} for n = {} returned normally", name, n2, n));
                    }
                    if n2 == n {
                        r1.map_err(|m| format!("{}: panicked on conformable operands: {}", name, m))?;
                        r2.map_err(|m| format!("{}: panicked on conformable operands: {}", name, m))?;
                    }
                }
                _ => {
                    let mut t = tri(src, n);
                    let i = oob(n, w);
                    must_panic("Tridiagonal index out of bounds", || t[(i, i)])?;
                    must_panic("Tridiagonal index out of bounds (row)", || t[(i, n - 1)])?;
                    must_panic("Tridiagonal index_mut out of bounds", || t[(n - 1, i)] = Rat::int(1))?;
                    if n >= 3 {
                        must_panic("Tridiagonal index off the band", || t[(0, 2)])?;
                        must_panic("Tridiagonal index_mut off the band", || t[(2, 0)] = Rat::int(1))?;
                    }
                }
            }
            Ok(name)
        }
        // ------------------------------------------------------------ Sparse
        52 => {
            let (rows, cols) = (a.max(1), b.max(1));
            let mut t = vec![(0usize, 0usize, 1.0f64), (oob(rows, w), 0, 2.0)];
            must_panic("Sparse::from_triplets row out of range", || Sparse::from_triplets(rows, cols, &mut t))?;
            let mut t = vec![(0usize, oob(cols, w), 2.0f64), (0, 0, 1.0)];
            must_panic("Sparse::from_triplets column out of range", || Sparse::from_triplets(rows, cols, &mut t))?;
            // the offending triplet in every position of a longer list, with valid triplets in earlier and later columns
            // (a check that only looks at the first or the last entry, before or after sorting, is not enough)
            let valid: Vec<(usize, usize, f64)> = (0..cols).map(|j| (j % rows, j, 1.0 + j as f64)).chain((0..cols).map(|j| ((j + 1) % rows, j, 3.0))).filter(|t| t.0 < rows).collect();
            for pos in 0..=valid.len() {
                for bad in [(oob(rows, w), 0usize, 2.0f64), (oob(rows, w), cols / 2, 2.0), (0, oob(cols, w), 2.0)] {
                    let mut t = valid.clone();
                    t.dedup_by(|x, y| x.0 == y.0 && x.1 == y.1);
                    t.insert(pos.min(t.len()), bad);
                    must_panic("Sparse::from_triplets with one out-of-range triplet among valid ones", || Sparse::from_triplets(rows, cols, &mut t))?;
                }
            }
            Ok("Sparse::from_triplets out of range")
        }
        53 => {
            let (rows, cols) = (a.max(1), b.max(1));
            let mut s = sp(src, rows, cols);
            let snap = sp_snapshot(&s);
            must_panic("Sparse::get row out of range", || s.get(oob(rows, w), 0))?;
            must_panic("Sparse::get column out of range", || s.get(0, oob(cols, w)))?;
            must_panic("Sparse::insert row out of range", || s.insert(oob(rows, w), 0, 1.0))?;
            must_panic("Sparse::insert column out of range", || s.insert(0, oob(cols, w), 1.0))?;
            unchanged("Sparse::insert out of range", &snap, &sp_snapshot(&s))?;
            // the same on a matrix without stored entries
            let mut z: Sparse<f64> = Sparse::from_triplets(rows, cols, &mut Vec::new());
            must_panic("Sparse::get row out of range (matrix without entries)", || z.get(oob(rows, w), 0))?;
            must_panic("Sparse::get column out of range (matrix without entries)", || z.get(0, oob(cols, w)))?;
            must_panic("Sparse::insert row out of range (matrix without entries)", || z.insert(oob(rows, w), 0, 1.0))?;
            must_panic("Sparse::insert column out of range (matrix without entries)", || z.insert(0, oob(cols, w), 1.0))?;
            if z.nonzero != 0 {
                return Err("a rejected insert changed a matrix without entries".into());
            }
            Ok("Sparse::get/insert out of range")
        }
        54 | 55 => {
            let r = 1 + src.usize_below(5);
            let (s, v) = if e == 54 { (sp(src, r, a.max(1)), fv(src, if mism { b } else { a.max(1) })) } else { (sp(src, a.max(1), r), fv(src, if mism { b } else { a.max(1) })) };
            let need = a.max(1);
            let bad = v.size() != need;
            let name = if e == 54 { "Sparse::multiply" } else { "Sparse::transpose_multiply" };
            let res = catch(|| if e == 54 { s.multiply(&v) } else { s.transpose_multiply(&v) });
            if bad && res.is_ok() {
                return Err(format!("{}: vector of size {} where {} is required returned normally", name, v.size(), need));
            }
            if !bad {
                res.map_err(|m| format!("{}: panicked on conformable operands: {}", name, m))?;
            }
            Ok(name)
        }
        56..=60 => {
            // iterative solvers: matrix rows != b.size(), non-square matrix, b.size() != x.size(), bad itol
            let n = a.max(1);
            let solver = (e - 56) as usize;
            let name: &'static str = ["Sparse::solve_cg", "Sparse::solve_bicg (itol 1)", "Sparse::solve_bicg (itol 2)", "Sparse::solve_bicgstab", "Sparse::solve_qmr"][solver];
            let which = src.below(5);
            let other = if mism { b.max(1) } else { n + 1 };
            let zeros = |k: usize| Vector::create(vec![0.0f64; k]);
            let (s, bv, mut xv) = match which {
                0 => (sp(src, n, n), fv(src, other), fv(src, other)),
                1 => (sp(src, n, other), fv(src, n), fv(src, n)),
                2 => (sp(src, n, n), fv(src, n), fv(src, other)),
                // non-square matrix whose products are conformable (|b| = rows, |x| = cols): only the explicit
                // squareness check rejects it; with zero data the start is already "converged"
                3 => (sp(src, n, other), zeros(n), zeros(other)),
                _ => (sp(src, n, other), fv(src, n), fv(src, other)),
            };
            let bad = other != n;
            let budget = if which >= 3 && src.coin() { 0 } else { 5 };
            let snap: Vec<u64> = xv.vec.iter().map(|v| v.to_bits()).collect();
            let r = catch(|| super::itersys::call(solver, &s, &bv, &mut xv, budget, 1e-8));
            if bad {
                if r.is_ok() {
                    return Err(format!("{}: mismatched sizes (variant {}: n = {}, other = {}) returned normally", name, which, n, other));
                }
                let now: Vec<u64> = xv.vec.iter().map(|v| v.to_bits()).collect();
                unchanged(name, &snap, &now)?;
            }
            if solver == 1 {
                let (s, bv, mut xv) = (sp(src, n, n), fv(src, n), fv(src, n));
                let snap: Vec<u64> = xv.vec.iter().map(|v| v.to_bits()).collect();
                let itol = [0usize, 3, usize::MAX][w as usize];
                must_panic("Sparse::solve_bicg with itol not in {1,2}", || s.solve_bicg(&bv, &mut xv, 5, 1e-8, itol))?;
                let now: Vec<u64> = xv.vec.iter().map(|v| v.to_bits()).collect();
                unchanged("Sparse::solve_bicg bad itol", &snap, &now)?;
            }
            Ok(name)
        }
        // ------------------------------------------------------------ Meshes
        61 => {
            let n = 2 + a;
            let nv = 1 + src.usize_below(3);
            let mut m = Mesh1D::<f64, f64>::new(Vector::<f64>::linspace(0.0, 1.0, n), nv);
            must_panic("Mesh1D::set_nodes_vars node out of range", || m.set_nodes_vars(oob(n, w), fv(src, nv)))?;
            must_panic("Mesh1D::get_nodes_vars node out of range", || m.get_nodes_vars(oob(n, w)))?;
            let wrong = if b + 1 == nv { nv + 1 } else { b + 1 };
            let wrong = if wrong == nv { nv + 2 } else { wrong };
            must_panic("Mesh1D::set_nodes_vars wrong number of variables", || m.set_nodes_vars(0, fv(src, wrong)))?;
            for i in 0..n {
                if m.get_nodes_vars(i).vec != vec![0.0; nv] {
                    return Err("Mesh1D: a rejected write modified the mesh".into());
                }
            }
            Ok("Mesh1D node/variable accessors")
        }
        62 => {
            let (nx, ny) = (2 + a, 2 + b);
            let nv = 1 + src.usize_below(3);
            let mut m = Mesh2D::<f64>::new(Vector::<f64>::linspace(0.0, 1.0, nx), Vector::<f64>::linspace(0.0, 1.0, ny), nv);
            must_panic("Mesh2D::set_nodes_vars x node out of range", || m.set_nodes_vars(oob(nx, w), 0, fv(src, nv)))?;
            must_panic("Mesh2D::set_nodes_vars y node out of range", || m.set_nodes_vars(0, oob(ny, w), fv(src, nv)))?;
            must_panic("Mesh2D::get_nodes_vars x node out of range", || m.get_nodes_vars(oob(nx, w), 0))?;
            must_panic("Mesh2D::get_nodes_vars y node out of range", || m.get_nodes_vars(0, oob(ny, w)))?;
            must_panic("Mesh2D::set_nodes_vars wrong number of variables", || m.set_nodes_vars(0, 0, fv(src, nv + 1 + w as usize)))?;
            must_panic("Mesh2D::var_as_matrix variable out of range", || m.var_as_matrix(oob(nv, w)))?;
            for i in 0..nx {
                for j in 0..ny {
                    if m.get_nodes_vars(i, j).vec != vec![0.0; nv] {
                        return Err("Mesh2D: a rejected write modified the mesh".into());
                    }
                }
            }
            Ok("Mesh2D node/variable accessors")
        }
        // ------------------------------------------------------------ Polynomial
        63 => {
            let mut p = Polynomial::<R>::new(rv(src, a).vec);
            let i = oob(a, w);
            must_panic("Polynomial index out of range", || p[i])?;
            must_panic("Polynomial index_mut out of range", || p[i] = Rat::int(1))?;
            if p.size() != a {
                return Err("Polynomial: a rejected write changed the size".into());
            }
            Ok("Polynomial index")
        }
        64 => {
            let n = 2 + a;
            let nv = 1 + src.usize_below(3);
            let mut m = Mesh1D::<f64, f64>::new(Vector::<f64>::linspace(0.0, 1.0, n), nv);
            must_panic("Mesh1D::coord node out of range", || m.coord(oob(n, w)))?;
            must_panic("Mesh1D index node out of range", || m[oob(n, w)].size())?;
            must_panic("Mesh1D index_mut node out of range", || m[oob(n, w)][0] = 1.0)?;
            must_panic("Mesh1D::trapezium variable out of range", || m.trapezium(oob(nv, w)))?;
            must_return("Mesh1D::trapezium", || m.trapezium(nv - 1))?;
            // state left behind by an earlier call: after reading a file with FEWER nodes the nodes beyond the
            // new end are outside the mesh and must be rejected by every accessor
            let small = 2 + (b % (n - 1).max(1)).min(n.saturating_sub(3));
            if small < n {
                let src_mesh = Mesh1D::<f64, f64>::new(Vector::<f64>::linspace(0.0, 1.0, small), nv);
                let file = std::env::temp_dir().join(format!("ohsl-verif-{}", std::process::id()));
                let _ = std::fs::create_dir_all(&file);
                let file = file.join(format!("c20-{:?}-{}.dat", std::thread::current().id(), small)).to_string_lossy().into_owned();
                src_mesh.output(&file, 6);
                for i in 0..n {
                    m[i][0] = 100.0 + i as f64;
                }
                m.read(&file);
                let _ = std::fs::remove_file(&file);
                if m.nnodes() != small {
                    return Err(format!("Mesh1D::read: {} nodes after reading a file with {}", m.nnodes(), small));
                }
                for k in [small, n - 1] {
                    must_panic("Mesh1D index beyond the end after read() shrank the mesh", || m[k].size())?;
                    must_panic("Mesh1D index_mut beyond the end after read() shrank the mesh", || m[k][0] = 1.0)?;
                    must_panic("Mesh1D::get_nodes_vars beyond the end after read() shrank the mesh", || m.get_nodes_vars(k))?;
                    must_panic("Mesh1D::set_nodes_vars beyond the end after read() shrank the mesh", || m.set_nodes_vars(k, fv(src, nv)))?;
                    must_panic("Mesh1D::coord beyond the end after read() shrank the mesh", || m.coord(k))?;
                }
                return Ok("Mesh1D coord/index/trapezium out of range");
            }
            for i in 0..n {
                if m.get_nodes_vars(i).vec != vec![0.0; nv] {
                    return Err("Mesh1D: a rejected write modified the mesh".into());
                }
            }
            Ok("Mesh1D coord/index/trapezium out of range")
        }
        65 => {
            let (nx, ny) = (2 + a, 2 + b);
            let nv = 1 + src.usize_below(3);
            let mut m = Mesh2D::<f64>::new(Vector::<f64>::linspace(0.0, 1.0, nx), Vector::<f64>::linspace(0.0, 1.0, ny), nv);
            must_panic("Mesh2D::coord x node out of range", || m.coord(oob(nx, w), 0))?;
            must_panic("Mesh2D::coord y node out of range", || m.coord(0, oob(ny, w)))?;
            must_panic("Mesh2D::cross_section_xnode out of range", || m.cross_section_xnode(oob(nx, w)).nnodes())?;
            must_panic("Mesh2D::cross_section_ynode out of range", || m.cross_section_ynode(oob(ny, w)).nnodes())?;
            must_panic("Mesh2D::trapezium variable out of range", || m.trapezium(oob(nv, w)))?;
            must_panic("Mesh2D::square_trapezium variable out of range", || m.square_trapezium(oob(nv, w)))?;
            must_panic("Mesh2D::apply variable out of range", || m.apply(&|x, y| x + y, oob(nv, w)))?;
            must_return("Mesh2D::cross_section_xnode", || m.cross_section_xnode(nx - 1).nnodes())?;
            for i in 0..nx {
                for j in 0..ny {
                    if m.get_nodes_vars(i, j).vec != vec![0.0; nv] {
                        return Err("Mesh2D: a rejected apply() modified the mesh".into());
                    }
                }
            }
            Ok("Mesh2D coord/cross_section/trapezium/apply out of range")
        }
        _ => Ok("(unused slot)"),
    }
}

// ------------------------------------------------------------------ clone independence
fn clones(case: &mut Case) -> Result<(), String> {
    let kind = case.src.below(6);
    let steps = case.src.urange(2, 14);
    let mut log: Vec<String> = Vec::new();
    let (mut na, mut nb) = (0, 0);
    // the copy is made by clone() or by Clone::clone_from into an existing object of another shape
    let via_clone_from = case.src.below(3) == 0;
    if via_clone_from {
        case.class("clone made by clone_from into an existing object");
    }
    match kind {
        0 => {
            let n = 1 + case.src.usize_below(6);
            let mut a = rv(&mut case.src, n);
            let mut ma = a.vec.clone();
            let mut b = if via_clone_from {
                let n2 = case.src.usize_below(8);
                let mut d = rv(&mut case.src, n2);
                d.clone_from(&a);
                d
            } else {
                a.clone()
            };
            let mut mb = ma.clone();
            if b.vec != mb || b.size() != n {
                return Err(format!("Vector clone (clone_from = {}) differs from its original: {:?} vs {:?}", via_clone_from, b.vec, mb));
            }
            for _ in 0..steps {
                let on_a = case.src.coin();
                let (v, m) = if on_a { (&mut a, &mut ma) } else { (&mut b, &mut mb) };
                if on_a { na += 1 } else { nb += 1 }
                let val = gen::rat(&mut case.src);
                match case.src.below(4) {
                    0 => { v.push(val); m.push(val); }
                    1 => { if !m.is_empty() { let i = case.src.usize_below(m.len()); v[i] = val; m[i] = val; } }
                    2 => { *v *= val; for x in m.iter_mut() { *x = *x * val; } }
                    _ => { v.assign(val); for x in m.iter_mut() { *x = val; } }
                }
                log.push(format!("{}", if on_a { "orig" } else { "clone" }));
                if a.vec != ma || b.vec != mb {
                    return Err(format!("Vector clone is not independent after [{}]: orig {:?} (model {:?}), clone {:?} (model {:?})", log.join(","), a.vec, ma, b.vec, mb));
                }
            }
            case.class("clone Vector");
        }
        1 => {
            let (r, c) = (1 + case.src.usize_below(4), 1 + case.src.usize_below(4));
            let mut a = rm(&mut case.src, r, c);
            let mut ma = from_matrix(&a);
            let mut b = if via_clone_from {
                // into an existing matrix: the transposed shape (same number of elements) or any other
                let (r2, c2) = if case.src.coin() { (c, r) } else { (1 + case.src.usize_below(4), 1 + case.src.usize_below(4)) };
                let mut d = rm(&mut case.src, r2, c2);
                d.clone_from(&a);
                d
            } else {
                a.clone()
            };
            let mut mb = ma.clone();
            if b.rows() != r || b.cols() != c || from_matrix(&b) != mb || !(b == a) {
                return Err(format!("Matrix clone (clone_from = {}) of a {}x{} matrix is {}x{} with entries {:?}, original {:?}", via_clone_from, r, c, b.rows(), b.cols(), from_matrix(&b), mb));
            }
            for _ in 0..steps {
                let on_a = case.src.coin();
                let (v, m) = if on_a { (&mut a, &mut ma) } else { (&mut b, &mut mb) };
                if on_a { na += 1 } else { nb += 1 }
                let val = gen::rat(&mut case.src);
                let (i, j) = (case.src.usize_below(r), case.src.usize_below(c));
                match case.src.below(4) {
                    0 => { v[(i, j)] = val; m[i][j] = val; }
                    1 => { v.fill_row(i, val); m[i] = vec![val; c]; }
                    2 => { *v += val; for x in m.iter_mut().flatten() { *x = *x + val; } }
                    _ => { v.fill_col(j, val); for row in m.iter_mut() { row[j] = val; } }
                }
                if from_matrix(&a) != ma || from_matrix(&b) != mb {
                    return Err("Matrix clone is not independent of its original".into());
                }
            }
            case.class("clone Matrix");
        }
        2 => {
            let n = 2 + case.src.usize_below(5);
            let (m1, m2) = (case.src.usize_below(n), case.src.usize_below(n));
            let mut a = band(&mut case.src, n, m1, m2);
            let mut ma = from_matrix(a.compact());
            let mut b = if via_clone_from {
                let (n2, p1, p2) = if case.src.coin() { (n, m2, m1) } else { let k = 2 + case.src.usize_below(5); (k, case.src.usize_below(k), case.src.usize_below(k)) };
                let mut d = band(&mut case.src, n2, p1, p2);
                d.clone_from(&a);
                d
            } else {
                a.clone()
            };
            let mut mb = ma.clone();
            if b.size() != n || b.size_below() != m1 || b.size_above() != m2 || from_matrix(b.compact()) != mb {
                return Err(format!("Banded clone (clone_from = {}) of (n,m1,m2) = ({},{},{}) reports ({},{},{}) / differs in its band", via_clone_from, n, m1, m2, b.size(), b.size_below(), b.size_above()));
            }
            for _ in 0..steps {
                let on_a = case.src.coin();
                let (v, m) = if on_a { (&mut a, &mut ma) } else { (&mut b, &mut mb) };
                if on_a { na += 1 } else { nb += 1 }
                let val = gen::rat(&mut case.src);
                let i = case.src.usize_below(n);
                match case.src.below(3) {
                    0 => { v[(i, i)] = val; m[i][m1] = val; }
                    1 => { *v *= val; for x in m.iter_mut().flatten() { *x = *x * val; } }
                    _ => { v.fill_band(0, val); for row in m.iter_mut() { row[m1] = val; } }
                }
                if from_matrix(a.compact()) != ma || from_matrix(b.compact()) != mb {
                    return Err("Banded clone is not independent of its original".into());
                }
            }
            case.class("clone Banded");
        }
        3 => {
            let n = 2 + case.src.usize_below(5);
            let mut a = tri(&mut case.src, n);
            let diag = |t: &Tridiagonal<R>| -> (Vec<R>, Vec<R>, Vec<R>) { (t.subdiagonal().vec.clone(), t.maindiagonal().vec.clone(), t.superdiagonal().vec.clone()) };
            let mut ma = diag(&a);
            let mut b = if via_clone_from {
                let n2 = 2 + case.src.usize_below(5);
                let mut d = tri(&mut case.src, n2);
                d.clone_from(&a);
                d
            } else {
                a.clone()
            };
            let mut mb = ma.clone();
            if b.size() != n || diag(&b) != mb {
                return Err(format!("Tridiagonal clone (clone_from = {}) of order {} has order {} / different diagonals", via_clone_from, n, b.size()));
            }
            for _ in 0..steps {
                let on_a = case.src.coin();
                let (v, m) = if on_a { (&mut a, &mut ma) } else { (&mut b, &mut mb) };
                if on_a { na += 1 } else { nb += 1 }
                let val = gen::rat(&mut case.src);
                let i = case.src.usize_below(n - 1);
                match case.src.below(4) {
                    0 => { v[(i, i)] = val; m.1[i] = val; }
                    1 => { v[(i + 1, i)] = val; m.0[i] = val; }
                    2 => { v[(i, i + 1)] = val; m.2[i] = val; }
                    _ => { *v += val; for x in m.0.iter_mut().chain(m.1.iter_mut()).chain(m.2.iter_mut()) { *x = *x + val; } }
                }
                if diag(&a) != ma || diag(&b) != mb {
                    return Err("Tridiagonal clone is not independent of its original".into());
                }
            }
            case.class("clone Tridiagonal");
        }
        4 => {
            let n = 1 + case.src.usize_below(6);
            let mut a = Polynomial::<R>::new(rv(&mut case.src, n).vec);
            let co = |p: &Polynomial<R>| -> Vec<R> { (0..p.size()).map(|i| p[i]).collect() };
            let mut ma = co(&a);
            let mut b = if via_clone_from {
                let n2 = 1 + case.src.usize_below(8);
                let mut d = Polynomial::<R>::new(rv(&mut case.src, n2).vec);
                d.clone_from(&a);
                d
            } else {
                a.clone()
            };
            let mut mb = ma.clone();
            if co(&b) != mb {
                return Err(format!("Polynomial clone (clone_from = {}) has coefficients {:?}, original {:?}", via_clone_from, co(&b), mb));
            }
            for _ in 0..steps {
                let on_a = case.src.coin();
                let (v, m) = if on_a { (&mut a, &mut ma) } else { (&mut b, &mut mb) };
                if on_a { na += 1 } else { nb += 1 }
                let val = gen::rat(&mut case.src);
                let i = case.src.usize_below(m.len());
                if case.src.coin() {
                    v[i] = val;
                    m[i] = val;
                } else {
                    v.coeffs().push(val);
                    m.push(val);
                }
                if co(&a) != ma || co(&b) != mb {
                    return Err("Polynomial clone is not independent of its original".into());
                }
            }
            case.class("clone Polynomial");
        }
        _ => {
            let mut a = Cmplx::new(case.src.small_int(9) as f64, case.src.small_int(9) as f64);
            let mut ma = (a.real, a.imag);
            let mut b = a.clone();
            let mut mb = ma;
            for _ in 0..steps {
                let on_a = case.src.coin();
                let (v, m) = if on_a { (&mut a, &mut ma) } else { (&mut b, &mut mb) };
                if on_a { na += 1 } else { nb += 1 }
                let val = case.src.small_int(5) as f64;
                if case.src.coin() {
                    *v += val;
                    m.0 += val;
                } else {
                    v.imag = val;
                    m.1 = val;
                }
                if (a.real, a.imag) != ma || (b.real, b.imag) != mb {
                    return Err("Complex clone is not independent of its original".into());
                }
            }
            case.class("clone Complex");
        }
    }
    if na >= 3 && nb >= 3 {
        case.mark_nontrivial();
    }
    case.describe(|| format!("clone independence kind {} with {} mutations on the original and {} on the clone", kind, na, nb));
    Ok(())
}

// ------------------------------------------------------------------ by-reference forms leave operands untouched
fn byref(case: &mut Case) -> Result<(), String> {
    let n = 1 + case.src.usize_below(6);
    let c = 1 + case.src.usize_below(6);
    let (x, y) = (rm(&mut case.src, n, c), rm(&mut case.src, n, c));
    let (sx, sy) = (from_matrix(&x), from_matrix(&y));
    let v = rv(&mut case.src, c);
    let sv = v.vec.clone();
    let z = rm(&mut case.src, c, n);
    let sz = from_matrix(&z);
    let s = gen::rat_nz(&mut case.src);
    let eqm = |p: &Matrix<R>, q: &Matrix<R>| from_matrix(p) == from_matrix(q) && p.rows() == q.rows() && p.cols() == q.cols();
    if !eqm(&(&x + &y), &(x.clone() + y.clone())) || !eqm(&(&x - &y), &(x.clone() - y.clone())) || !eqm(&(&x * &z), &(x.clone() * z.clone())) || !eqm(&(&x * s), &(x.clone() * s)) || !eqm(&(&x / s), &(x.clone() / s)) || !eqm(&(-&x), &(-x.clone())) {
        return Err("a consuming Matrix operator differs from its by-reference form".into());
    }
    if (&x * &v).vec != (x.clone() * v.clone()).vec || x.multiply(&v).vec != (&x * &v).vec {
        return Err("Matrix * Vector forms differ".into());
    }
    let _ = (x.transpose(), x.get_row(0), x.get_col(0));
    if n == c {
        let _ = catch(|| x.determinant());
        let _ = catch(|| x.inverse());
    }
    if from_matrix(&x) != sx || from_matrix(&y) != sy || from_matrix(&z) != sz || v.vec != sv {
        return Err("a by-reference Matrix operator or &self method modified an operand".into());
    }
    // vectors
    let (p, q) = (rv(&mut case.src, n), rv(&mut case.src, n));
    let (sp_, sq) = (p.vec.clone(), q.vec.clone());
    if (&p + &q).vec != (p.clone() + q.clone()).vec || (&p - &q).vec != (p.clone() - q.clone()).vec || (p.clone() + &q).vec != (&p + &q).vec {
        return Err("a consuming Vector operator differs from its by-reference form".into());
    }
    let _ = (p.dot(&q), p.abs(), p.norm_1(), p.sum(), p.find(q.vec[0]));
    if p.vec != sp_ || q.vec != sq {
        return Err("a by-reference Vector operator or &self method modified an operand".into());
    }
    // banded, tridiagonal, polynomial
    let (m1, m2) = (case.src.usize_below(n), case.src.usize_below(n));
    let (bx, by) = (band(&mut case.src, n, m1, m2), band(&mut case.src, n, m1, m2));
    let (sbx, sby) = (from_matrix(bx.compact()), from_matrix(by.compact()));
    let bw = rv(&mut case.src, n);
    if from_matrix((&bx + &by).compact()) != from_matrix((bx.clone() + by.clone()).compact()) || from_matrix((&bx - &by).compact()) != from_matrix((bx.clone() - by.clone()).compact()) || from_matrix((&bx * s).compact()) != from_matrix((bx.clone() * s).compact()) || (&bx * &bw).vec != (bx.clone() * bw.clone()).vec {
        return Err("a consuming Banded operator differs from its by-reference form".into());
    }
    let _ = catch(|| bx.det());
    let _ = catch(|| bx.solve(&bw));
    if from_matrix(bx.compact()) != sbx || from_matrix(by.compact()) != sby {
        return Err("a by-reference Banded operator or &self method modified an operand".into());
    }
    let (pa, pb) = (Polynomial::<R>::new(rv(&mut case.src, n).vec), Polynomial::<R>::new(rv(&mut case.src, c).vec));
    let co = |p: &Polynomial<R>| -> Vec<R> { (0..p.size()).map(|i| p[i]).collect() };
    let (spa, spb) = (co(&pa), co(&pb));
    if co(&(&pa + &pb)) != co(&(pa.clone() + pb.clone())) || co(&(&pa - &pb)) != co(&(pa.clone() - pb.clone())) || co(&(&pa * &pb)) != co(&(pa.clone() * pb.clone())) || co(&(&pa * s)) != co(&(pa.clone() * s)) || co(&(-&pa)) != co(&(-pa.clone())) {
        return Err("a consuming Polynomial operator differs from its by-reference form".into());
    }
    let _ = (pa.eval(s), pa.derivative(), catch(|| pa.polydiv(&pb)));
    if co(&pa) != spa || co(&pb) != spb {
        return Err("a by-reference Polynomial operator or &self method modified an operand".into());
    }
    let t = tri(&mut case.src, n.max(2));
    let st = (t.subdiagonal().vec.clone(), t.maindiagonal().vec.clone(), t.superdiagonal().vec.clone());
    let tv = rv(&mut case.src, n.max(2));
    let _ = (&t * &tv, t.det(), t.convert(), t.transpose(), catch(|| t.solve(&tv)));
    if (t.subdiagonal().vec.clone(), t.maindiagonal().vec.clone(), t.superdiagonal().vec.clone()) != st {
        return Err("a &self Tridiagonal method modified the matrix".into());
    }
    case.class("by-reference forms");
    case.mark_nontrivial();
    case.describe(|| format!("by-reference sweep n={} c={}", n, c));
    Ok(())
}

impl Prop for C20 {
    fn id(&self) -> &'static str {
        "C20"
    }
    fn rule(&self) -> String {
        format!(
            "family 0 (enumerated exhaustively in every run): a table of {} checked entry points - binary operators and compound assignments of Vector, Matrix, Banded, Tridiagonal; dot, dot_f64, range reductions, index/swap/insert/pop; \
             row/column accessors, setters and fills; multiply; the dense solver entries, inverse/determinant/LU on non-square input; banded/tridiagonal solve, product, constructors, fill_band, band index; sparse from_triplets, get, insert, multiply, \
             transpose_multiply, the five iterative solvers (rows != b, non-square, b != x, bad itol); mesh node/variable accessors; polynomial index - each with every pair of sizes (a, b) in 0..=6 x 0..=6 and each out-of-range variant (size, size+1, usize::MAX): \
             mismatched => the call must panic (catch_unwind) and a &mut receiver must equal its snapshot afterwards; a == b => the conformable call must return. The raw (i,j) operators of Matrix, Banded (inside the band) and Mesh2D are excluded. \
             family 1: random interleavings of mutations on a value and its clone - made by clone() or by clone_from into an existing object of another (one time in two: same-size, transposed) shape - (Vector, Matrix, Banded, Tridiagonal, Polynomial, Complex) against two independent models; family 2: by-reference operators and &self methods leave operands bitwise unchanged and \
             consuming forms return identical results. Non-trivial: every mismatched table case; clone histories with >= 3 mutations on each side; every by-reference sweep. distinct = distinct decoded choice sequence.",
            N_ENTRIES
        )
    }
    fn assumptions(&self) -> Vec<String> {
        vec!["a panic is observed with catch_unwind; a panic of any message counts as rejection".into()]
    }
    fn stream_len(&self, _tier: Tier) -> usize {
        420
    }
    fn random_cases(&self, tier: Tier) -> usize {
        tier.pick(40_000, 800_000)
    }
    fn enum_prefixes(&self, _tier: Tier) -> Vec<Vec<u32>> {
        let mut v = Vec::new();
        for e in 0..N_ENTRIES {
            for a in 0..7 {
                for b in 0..7 {
                    for w in 0..3 {
                        v.push(vec![raw_for(0, 3), raw_for(e, N_ENTRIES), raw_for(a, 7), raw_for(b, 7), raw_for(w, 3)]);
                    }
                }
            }
        }
        v
    }
    fn enum_reps(&self, tier: Tier) -> usize {
        tier.pick(2, 12)
    }
    fn enum_note(&self, _tier: Tier) -> Option<String> {
        Some(format!("all {} table entries x all size pairs (a,b) in 0..=6^2 x all 3 out-of-range variants = {} configurations", N_ENTRIES, N_ENTRIES * 147))
    }
    fn run(&self, case: &mut Case) -> Outcome {
        let r = match case.src.below(3) {
            0 => {
                let e = case.src.below(N_ENTRIES);
                let a = case.src.usize_below(7);
                let b = case.src.usize_below(7);
                let w = case.src.below(3);
                match entry(e, a, b, w, &mut case.src) {
                    Ok(name) => {
                        case.class(format!("table: {}", name));
                        if a != b {
                            case.mark_nontrivial();
                        }
                        case.describe(|| format!("table entry {} ({}) sizes ({}, {}) out-of-range variant {}", e, name, a, b, w));
                        Ok(())
                    }
                    Err(m) => {
                        case.describe(|| format!("table entry {} sizes ({}, {}) out-of-range variant {}", e, a, b, w));
                        Err(format!("[entry {} sizes ({},{}) variant {}] {}", e, a, b, w, m))
                    }
                }
            }
            1 => clones(case),
            _ => byref(case),
        };
        match r {
            Ok(()) => Outcome::Pass,
            Err(m) => Outcome::Fail(m),
        }
    }
}
