//! C13 — complex arithmetic is exact field arithmetic; operator variants and ordering agree.

use super::util::EPS;
use crate::dd::Dd;
use crate::engine::{Case, Outcome, Prop, Tier};
use crate::gen;
use crate::rat::Rat;
use crate::refla::{Field, CR};
use crate::stream::Src;
use ohsl::traits::{One, Zero};
use ohsl::{Cmplx, Complex};
use std::cmp::Ordering;

pub struct C13;

type CQ = Complex<Rat>;

fn gen_cq(src: &mut Src) -> (Rat, Rat) {
    match src.below(6) {
        0 => (gen::rat(src), Rat::int(0)),
        1 => (Rat::int(0), gen::rat(src)),
        _ => (gen::rat(src), gen::rat(src)),
    }
}
fn cq(z: (Rat, Rat)) -> CQ {
    Complex::new(z.0, z.1)
}
fn cr(z: (Rat, Rat)) -> CR {
    CR::new(z.0, z.1)
}
fn same_q(a: &CQ, b: &CR) -> bool {
    a.real == b.re && a.imag == b.im
}

fn exact(case: &mut Case) -> Result<(), String> {
    let (z, w, v) = (gen_cq(&mut case.src), gen_cq(&mut case.src), gen_cq(&mut case.src));
    let r = gen::rat(&mut case.src);
    let rnz = gen::rat_nz(&mut case.src);
    case.class("rational components");
    let comps = [z.0, z.1, w.0, w.1];
    if comps.iter().all(|c| !c.is_zero()) && (0..4).all(|i| (0..i).all(|j| comps[i] != comps[j])) {
        case.mark_nontrivial();
    }
    case.describe(|| format!("rational z={:?} w={:?} v={:?} r={:?}", z, w, v, r));
    let (zc, wc, vc) = (cr(z), cr(w), cr(v));
    let chk = |got: CQ, exp: CR, what: &str| -> Result<(), String> {
        if same_q(&got, &exp) {
            Ok(())
        } else {
            Err(format!("{}: got {:?}, exact field result ({:?}, {:?})", what, got, exp.re, exp.im))
        }
    };
    chk(cq(z) + cq(w), zc + wc, "z + w")?;
    chk(cq(z) - cq(w), zc - wc, "z - w")?;
    chk(cq(z) * cq(w), zc * wc, "z * w")?;
    chk(-cq(z), zc.fneg(), "-z")?;
    chk(cq(z).conj(), CR::new(z.0, -z.1), "conj z")?;
    if cq(z).abs_sqr() != z.0 * z.0 + z.1 * z.1 {
        return Err(format!("abs_sqr = {:?}", cq(z).abs_sqr()));
    }
    chk(cq(z) + r, CR::new(z.0 + r, z.1), "z + r")?;
    chk(cq(z) - r, CR::new(z.0 - r, z.1), "z - r")?;
    chk(cq(z) * r, CR::new(z.0 * r, z.1 * r), "z * r")?;
    chk(cq(z) / rnz, CR::new(z.0 / rnz, z.1 / rnz), "z / r")?;
    let w_nonzero = !(w.0.is_zero() && w.1.is_zero());
    if w_nonzero {
        chk(cq(z) / cq(w), zc.fdiv(wc), "z / w")?;
        // (z / w) * w == z
        chk((cq(z) / cq(w)) * cq(w), zc, "(z / w) * w")?;
        let mut t = cq(z);
        t /= cq(w);
        chk(t, zc.fdiv(wc), "z /= w")?;
    }
    // field laws
    chk(cq(z) * (cq(w) + cq(v)), zc * wc + zc * vc, "z (w + v)")?;
    chk((cq(z) * cq(w)) * cq(v), zc * (wc * vc), "(z w) v")?;
    chk(cq(z) * cq(w), wc * zc, "z w = w z")?;
    chk(cq(z) * cq(z).conj(), CR::new(z.0 * z.0 + z.1 * z.1, Rat::int(0)), "z conj z")?;
    chk(cq(z) + CQ::zero(), zc, "z + 0")?;
    chk(cq(z) * CQ::one(), zc, "z * 1")?;
    chk(CQ::zero(), CR::zero(), "zero()")?;
    chk(CQ::one(), CR::one(), "one()")?;
    // compound assignment forms equal the binary forms
    let mut t = cq(z);
    t += cq(w);
    chk(t, zc + wc, "z += w")?;
    let mut t = cq(z);
    t -= cq(w);
    chk(t, zc - wc, "z -= w")?;
    let mut t = cq(z);
    t *= cq(w);
    chk(t, zc * wc, "z *= w")?;
    let mut t = cq(z);
    t += r;
    chk(t, CR::new(z.0 + r, z.1), "z += r")?;
    let mut t = cq(z);
    t -= r;
    chk(t, CR::new(z.0 - r, z.1), "z -= r")?;
    let mut t = cq(z);
    t *= r;
    chk(t, CR::new(z.0 * r, z.1 * r), "z *= r")?;
    let mut t = cq(z);
    t /= rnz;
    chk(t, CR::new(z.0 / rnz, z.1 / rnz), "z /= r")?;
    // equality and ordering
    order_laws(&cq(z), &cq(w), &cq(v), (z.0, z.1), (w.0, w.1), (v.0, v.1))?;
    // clone independence
    let orig = cq(z);
    let mut cl = orig.clone();
    cl += CQ::one();
    chk(orig, zc, "original after mutating its clone")?;
    Ok(())
}

fn order_laws<T: PartialOrd + PartialEq + Clone + ohsl::traits::Number + std::fmt::Debug, K: PartialOrd + Copy + std::fmt::Debug>(z: &Complex<T>, w: &Complex<T>, v: &Complex<T>, zk: (K, K), wk: (K, K), vk: (K, K)) -> Result<(), String> {
    let lex = |a: (K, K), b: (K, K)| -> Ordering {
        match a.0.partial_cmp(&b.0).unwrap() {
            Ordering::Equal => a.1.partial_cmp(&b.1).unwrap(),
            o => o,
        }
    };
    for (a, b, ak, bk) in [(z, w, zk, wk), (w, v, wk, vk), (z, v, zk, vk), (z, z, zk, zk)] {
        let flags = [(a < b), (a == b), (a > b)];
        if flags.iter().filter(|f| **f).count() != 1 {
            return Err(format!("not exactly one of <, ==, > holds for {:?} and {:?}: {:?}", a, b, flags));
        }
        let e = lex(ak, bk);
        if a.partial_cmp(b) != Some(e) {
            return Err(format!("partial_cmp({:?},{:?}) = {:?}, lexicographic order says {:?}", a, b, a.partial_cmp(b), e));
        }
        if (a == b) != (e == Ordering::Equal) || (a != b) == (a == b) {
            return Err(format!("== inconsistent with the ordering for {:?} and {:?}", a, b));
        }
        if (a <= b) != (e != Ordering::Greater) || (a >= b) != (e != Ordering::Less) {
            return Err(format!("<= / >= inconsistent for {:?} and {:?}", a, b));
        }
        if b.partial_cmp(a) != Some(e.reverse()) {
            return Err(format!("ordering is not antisymmetric for {:?} and {:?}", a, b));
        }
    }
    if z <= w && w <= v && !(z <= v) {
        return Err(format!("ordering is not transitive on {:?} <= {:?} <= {:?}", z, w, v));
    }
    if z >= w && w >= v && !(z >= v) {
        return Err(format!("ordering is not transitive on {:?} >= {:?} >= {:?}", z, w, v));
    }
    Ok(())
}

fn gen_f(src: &mut Src) -> f64 {
    match src.below(9) {
        8 => -0.0, // what conj() / negation of a purely real number produces
        0 => 0.0,
        1 => src.small_int(9) as f64,
        2 => gen::f64_log(src, -100.0, 100.0),
        3 => gen::f64_log(src, -3.0, 3.0),
        _ => gen::f64_log(src, -10.0, 10.0),
    }
}
fn gen_cf(src: &mut Src) -> (f64, f64) {
    match src.below(6) {
        0 => (gen_f(src), 0.0),
        1 => (0.0, gen_f(src)),
        _ => (gen_f(src), gen_f(src)),
    }
}
fn bits(z: Cmplx) -> (u64, u64) {
    (z.real.to_bits(), z.imag.to_bits())
}

/// |got - exact| <= k*eps*sum|terms| for one component; exact and the term magnitude in double-double
fn comp_ok(got: f64, exact: Dd, mag: f64, k: f64) -> bool {
    if !got.is_finite() {
        return false;
    }
    let err = (Dd::from(got) - exact).abs().to_f64();
    err <= k * EPS * mag + f64::MIN_POSITIVE
}

fn float(case: &mut Case) -> Result<(), String> {
    let (z, w, v) = (gen_cf(&mut case.src), gen_cf(&mut case.src), gen_cf(&mut case.src));
    let r = gen_f(&mut case.src);
    let rnz = {
        let t = gen_f(&mut case.src);
        if t == 0.0 {
            3.0
        } else {
            t
        }
    };
    case.class("f64 components");
    let comps = [z.0, z.1, w.0, w.1];
    if comps.iter().all(|c| *c != 0.0) && (0..4).all(|i| (0..i).all(|j| comps[i] != comps[j])) {
        case.mark_nontrivial();
    }
    let span = comps.iter().filter(|c| **c != 0.0).map(|c| c.abs().log10()).fold((f64::INFINITY, f64::NEG_INFINITY), |a, b| (a.0.min(b), a.1.max(b)));
    if span.1 - span.0 > 50.0 {
        case.class("magnitude spread > 1e50");
    }
    case.describe(|| format!("f64 z={:?} w={:?} v={:?} r={:e} rnz={:e}", z, w, v, r, rnz));
    let c = |p: (f64, f64)| Cmplx::new(p.0, p.1);
    let (a, b, cc, d) = (z.0, z.1, w.0, w.1);
    // + and - are single roundings
    let s = c(z) + c(w);
    if s.real != a + cc || s.imag != b + d {
        return Err(format!("z + w = {:?}", s));
    }
    let s = c(z) - c(w);
    if s.real != a - cc || s.imag != b - d {
        return Err(format!("z - w = {:?}", s));
    }
    let s = -c(z);
    if bits(s) != ((-a).to_bits(), (-b).to_bits()) {
        return Err(format!("-z = {:?}", s));
    }
    let s = c(z).conj();
    if bits(s) != (a.to_bits(), (-b).to_bits()) {
        return Err(format!("conj z = {:?}", s));
    }
    // product: components within 4 eps of the exact value relative to the sum of |terms|
    let p = c(z) * c(w);
    let pre = Dd::prod(a, cc) - Dd::prod(b, d);
    let pim = Dd::prod(a, d) + Dd::prod(b, cc);
    let (mre, mim) = ((a * cc).abs() + (b * d).abs(), (a * d).abs() + (b * cc).abs());
    if !comp_ok(p.real, pre, mre, 4.0) || !comp_ok(p.imag, pim, mim, 4.0) {
        return Err(format!("z * w = {:?}, exact ({:e}, {:e})", p, pre.to_f64(), pim.to_f64()));
    }
    // quotient
    if cc != 0.0 || d != 0.0 {
        let q = c(z) / c(w);
        let den = Dd::prod(cc, cc) + Dd::prod(d, d);
        let nre = Dd::prod(a, cc) + Dd::prod(b, d);
        let nim = Dd::prod(b, cc) - Dd::prod(a, d);
        let (qre, qim) = (nre.div(den), nim.div(den));
        let dn = den.to_f64();
        let (mre, mim) = (((a * cc).abs() + (b * d).abs()) / dn, ((b * cc).abs() + (a * d).abs()) / dn);
        if !comp_ok(q.real, qre, mre, 8.0) || !comp_ok(q.imag, qim, mim, 8.0) {
            return Err(format!("z / w = {:?}, exact ({:e}, {:e})", q, qre.to_f64(), qim.to_f64()));
        }
        let mut t = c(z);
        t /= c(w);
        if bits(t) != bits(q) {
            return Err(format!("z /= w gives {:?}, z / w gives {:?}", t, q));
        }
    }
    // abs_sqr, abs, arg
    let as_ = c(z).abs_sqr();
    let ex = Dd::prod(a, a) + Dd::prod(b, b);
    if !comp_ok(as_, ex, ex.to_f64(), 2.0) {
        return Err(format!("abs_sqr = {:e}, exact {:e}", as_, ex.to_f64()));
    }
    let h = a.hypot(b);
    if !((c(z).abs() - h).abs() <= 3.0 * EPS * h) {
        return Err(format!("abs = {:e}, hypot = {:e}", c(z).abs(), h));
    }
    let at = b.atan2(a);
    if !((c(z).arg() - at).abs() <= 2.0 * EPS * at.abs()) {
        return Err(format!("arg = {:e}, atan2 = {:e}", c(z).arg(), at));
    }
    // mixed real forms are component-wise single roundings
    let s = c(z) + r;
    if s.real != a + r || s.imag.to_bits() != b.to_bits() {
        return Err(format!("z + r = {:?}", s));
    }
    let s = c(z) - r;
    if s.real != a - r || s.imag.to_bits() != b.to_bits() {
        return Err(format!("z - r = {:?}", s));
    }
    let s = c(z) * r;
    if bits(s) != ((a * r).to_bits(), (b * r).to_bits()) {
        return Err(format!("z * r = {:?}", s));
    }
    let s2 = r * c(z);
    if bits(s2) != bits(s) {
        return Err(format!("r * z = {:?} but z * r = {:?}", s2, s));
    }
    let s = c(z) / rnz;
    if bits(s) != ((a / rnz).to_bits(), (b / rnz).to_bits()) {
        return Err(format!("z / r = {:?}", s));
    }
    // all compound-assignment forms are bit-identical to the binary forms
    macro_rules! same {
        ($op:tt, $bin:expr, $rhs:expr, $name:expr) => {{
            let mut t = c(z);
            t $op $rhs;
            let e: Cmplx = $bin;
            if bits(t) != bits(e) {
                return Err(format!("{}: assignment form {:?} differs from binary form {:?}", $name, t, e));
            }
        }};
    }
    same!(+=, c(z) + c(w), c(w), "z += w");
    same!(-=, c(z) - c(w), c(w), "z -= w");
    same!(*=, c(z) * c(w), c(w), "z *= w");
    same!(+=, c(z) + r, r, "z += r");
    same!(-=, c(z) - r, r, "z -= r");
    same!(*=, c(z) * r, r, "z *= r");
    same!(/=, c(z) / rnz, rnz, "z /= r");
    // identities
    if bits(c(z) * Cmplx::one()) != bits(Cmplx::new(a * 1.0 - b * 0.0, a * 0.0 + b * 1.0)) || !(c(z) * Cmplx::one() == c(z)) {
        return Err("z * 1 != z".into());
    }
    if !(c(z) + Cmplx::zero() == c(z)) {
        return Err("z + 0 != z".into());
    }
    order_laws(&c(z), &c(w), &c(v), z, w, v)?;
    Ok(())
}

impl Prop for C13 {
    fn id(&self) -> &'static str {
        "C13"
    }
    fn rule(&self) -> String {
        "triples z, w, v of complex numbers and real scalars r: (a) components from a menu of small rationals (purely real / purely imaginary operands with probability 1/6 each): \
         +, -, *, /, neg, conj, abs_sqr, the four mixed complex/real forms and all eight compound assignments compared exactly with independently coded Gaussian-rational field formulas, \
         plus (z/w)w = z, distributivity, associativity, commutativity, z conj z = abs_sqr, zero/one identities; (b) f64 components in {+0, -0, small integers, +-10^[-100,100], +-10^[-10,10], +-10^[-3,3]}: \
         + and - single roundings, * within 4 eps and / within 8 eps of the double-double value relative to the sum of absolute values of the terms of the component, abs_sqr within 2 eps, abs within 3 eps of hypot, arg within 2 eps of atan2, \
         mixed real forms exact single roundings, f64*z == z*f64 bitwise, all compound assignments bit-identical to the binary forms; (both) exactly one of <,==,>, lexicographic, antisymmetric, transitive on the triple, == consistent with partial_cmp. \
         Non-trivial: all four components of z and w non-zero and pairwise different. distinct = distinct decoded choice sequence."
            .into()
    }
    fn assumptions(&self) -> Vec<String> {
        vec!["f64 magnitudes stay within 1e-100..1e100 so that no product over- or underflows".into()]
    }
    fn stream_len(&self, _tier: Tier) -> usize {
        48
    }
    fn random_cases(&self, tier: Tier) -> usize {
        tier.pick(300_000, 6_000_000)
    }
    fn run(&self, case: &mut Case) -> Outcome {
        let r = if case.src.coin() { exact(case) } else { float(case) };
        match r {
            Ok(()) => Outcome::Pass,
            Err(m) => Outcome::Fail(m),
        }
    }
}
