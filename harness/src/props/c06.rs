//! C06 — all views of a sparse matrix agree; the compressed-column form stays well-formed.

use crate::engine::{Case, Outcome, Prop, Tier};
use crate::gen;
use crate::rat::Rat;
use crate::stream::{raw_for, Src};
use ohsl::Sparse;
use std::collections::BTreeMap;

pub struct C06;

pub type Model = BTreeMap<(usize, usize), Rat>;

pub fn entry_value(src: &mut Src) -> Rat {
    // explicit zeros are legal stored entries; keep them rare
    if src.below(12) == 0 {
        Rat::int(0)
    } else {
        gen::rat_nz(src)
    }
}

/// random duplicate-free entry set
pub fn gen_model(src: &mut Src, rows: usize, cols: usize) -> Model {
    let mut m = Model::new();
    if rows == 0 || cols == 0 {
        return m;
    }
    let dens = src.below(6); // 0: empty ... 5: dense
    let empty_col = if src.below(3) == 0 { Some(src.usize_below(cols)) } else { None };
    let empty_row = if src.below(4) == 0 { Some(src.usize_below(rows)) } else { None };
    for r in 0..rows {
        for c in 0..cols {
            if Some(c) == empty_col || Some(r) == empty_row {
                continue;
            }
            if src.below(5) < dens {
                m.insert((r, c), entry_value(src));
            }
        }
    }
    m
}

pub fn triplets_in_order(model: &Model, perm: &[usize]) -> Vec<(usize, usize, Rat)> {
    let base: Vec<(usize, usize, Rat)> = model.iter().map(|(&(r, c), &v)| (r, c, v)).collect();
    perm.iter().map(|&i| base[i]).collect()
}

pub fn build_from_triplets(model: &Model, rows: usize, cols: usize, perm: &[usize]) -> Sparse<Rat> {
    let mut t = triplets_in_order(model, perm);
    Sparse::from_triplets(rows, cols, &mut t)
}

/// CSC arrays from the model; rows inside a column in the order given by `rev`
pub fn build_from_vecs(model: &Model, rows: usize, cols: usize, rev: bool) -> Sparse<Rat> {
    let mut val = Vec::new();
    let mut row_index = Vec::new();
    let mut col_start = vec![0usize; cols + 1];
    for c in 0..cols {
        let mut col: Vec<(usize, Rat)> = model.iter().filter(|(&(_, cc), _)| cc == c).map(|(&(r, _), &v)| (r, v)).collect();
        if rev {
            col.reverse();
        }
        for (r, v) in col {
            row_index.push(r);
            val.push(v);
        }
        col_start[c + 1] = val.len();
    }
    Sparse::from_vecs(rows, cols, val, row_index, col_start)
}

/// every view of `sp` against the model + CSC well-formedness
pub fn validate(sp: &Sparse<Rat>, model: &Model, rows: usize, cols: usize, what: &str) -> Result<(), String> {
    let fail = |m: String| Err(format!("{}: {} [rows={} cols={} nonzero={} val={:?} row_index={:?} col_start={:?}; model={:?}]", what, m, sp.rows, sp.cols, sp.nonzero, sp.val, sp.row_index, sp.col_start, model));
    if sp.rows != rows || sp.cols != cols {
        return fail(format!("shape {}x{} expected {}x{}", sp.rows, sp.cols, rows, cols));
    }
    let nnz = model.len();
    if sp.col_start.len() != cols + 1 {
        return fail(format!("col_start has length {} expected {}", sp.col_start.len(), cols + 1));
    }
    if sp.col_start[0] != 0 {
        return fail("col_start[0] != 0".into());
    }
    if sp.col_start.windows(2).any(|w| w[0] > w[1]) {
        return fail("col_start is not non-decreasing".into());
    }
    if sp.nonzero != nnz || sp.val.len() != nnz || sp.row_index.len() != nnz || sp.col_start[cols] != nnz {
        return fail(format!("entry counts nonzero={} val={} row_index={} col_start[last]={} expected {}", sp.nonzero, sp.val.len(), sp.row_index.len(), sp.col_start[cols], nnz));
    }
    if sp.row_index.iter().any(|&r| r >= rows) {
        return fail("row index out of range".into());
    }
    for c in 0..cols {
        let seg = &sp.row_index[sp.col_start[c]..sp.col_start[c + 1]];
        let mut s = seg.to_vec();
        s.sort_unstable();
        s.dedup();
        if s.len() != seg.len() {
            return fail(format!("duplicate coordinate in column {}", c));
        }
    }
    // get
    for r in 0..rows {
        for c in 0..cols {
            let g = sp.get(r, c);
            let e = model.get(&(r, c)).copied();
            if g != e {
                return fail(format!("get({},{}) = {:?}, expected {:?}", r, c, g, e));
            }
        }
    }
    // triplets
    let trip = sp.to_triplets();
    let tm: Model = trip.iter().map(|&(r, c, v)| ((r, c), v)).collect();
    if trip.len() != nnz || &tm != model {
        return fail(format!("to_triplets() = {:?}", trip));
    }
    // dense
    let d = sp.to_dense();
    if d.rows() != rows || d.cols() != cols {
        return fail(format!("to_dense() has shape {}x{}", d.rows(), d.cols()));
    }
    for r in 0..rows {
        for c in 0..cols {
            let e = model.get(&(r, c)).copied().unwrap_or(Rat::int(0));
            if d[(r, c)] != e {
                return fail(format!("to_dense()[({},{})] = {:?}, expected {:?}", r, c, d[(r, c)], e));
            }
        }
    }
    // column-index expansion
    let ci = sp.col_index();
    if ci.vec.len() != nnz {
        return fail(format!("col_index() has length {} expected {}", ci.vec.len(), nnz));
    }
    for k in 0..nnz {
        if (sp.row_index[k], ci.vec[k], sp.val[k]) != trip[k] {
            return fail(format!("(row_index[k], col_index[k], val[k]) at k={} = {:?} differs from the k-th triplet {:?}", k, (sp.row_index[k], ci.vec[k], sp.val[k]), trip[k]));
        }
    }
    // ... and its inverse: compressing the expanded column indices gives the column starts back
    let cs = sp.col_start_from_index(&ci);
    if cs != sp.col_start {
        return fail(format!("col_start_from_index(col_index()) = {:?} differs from col_start", cs));
    }
    Ok(())
}

fn next_permutation(p: &mut [usize]) -> bool {
    let n = p.len();
    if n < 2 {
        return false;
    }
    let mut i = n - 1;
    while i > 0 && p[i - 1] >= p[i] {
        i -= 1;
    }
    if i == 0 {
        return false;
    }
    let mut j = n - 1;
    while p[j] <= p[i - 1] {
        j -= 1;
    }
    p.swap(i - 1, j);
    p[i..].reverse();
    true
}

fn construction(case: &mut Case) -> Result<(), String> {
    let grid = case.src.below(4);
    let (rows, cols, model): (usize, usize, Model);
    if grid < 3 {
        let (r, c) = [(3, 3), (2, 3), (3, 2)][grid as usize];
        rows = r;
        cols = c;
        let cells = r * c;
        let pattern = case.src.below(1 << cells);
        let mut m = Model::new();
        for k in 0..cells {
            if pattern >> k & 1 == 1 {
                m.insert((k / c, k % c), entry_value(&mut case.src));
            }
        }
        model = m;
        case.class(format!("construction grid {}x{} exhaustive-pattern", r, c));
    } else {
        rows = case.src.usize_below(9);
        cols = case.src.usize_below(9);
        model = gen_model(&mut case.src, rows, cols);
        case.class("construction random-shape");
    }
    let n = model.len();
    let has_empty_col = (0..cols).any(|c| !model.keys().any(|&(_, cc)| cc == c));
    if n >= 2 && (rows != cols || has_empty_col) {
        case.mark_nontrivial();
    }
    case.describe(|| format!("construction {}x{} entries={:?}", rows, cols, model));
    let limit = case.tier.pick(4, 5);
    if n <= limit {
        // every permutation of the triplet order
        let mut p: Vec<usize> = (0..n).collect();
        loop {
            let sp = build_from_triplets(&model, rows, cols, &p);
            validate(&sp, &model, rows, cols, &format!("from_triplets order {:?}", p))?;
            if !next_permutation(&mut p) {
                break;
            }
        }
        case.class("all triplet permutations");
    } else {
        for _ in 0..case.tier.pick(6, 24) {
            let p = case.src.permutation(n);
            let sp = build_from_triplets(&model, rows, cols, &p);
            validate(&sp, &model, rows, cols, &format!("from_triplets order {:?}", p))?;
        }
        // reversed order is the classic killer of an unstable sort
        let p: Vec<usize> = (0..n).rev().collect();
        let sp = build_from_triplets(&model, rows, cols, &p);
        validate(&sp, &model, rows, cols, "from_triplets reversed order")?;
        case.class("random triplet permutations");
    }
    for rev in [false, true] {
        let sp = build_from_vecs(&model, rows, cols, rev);
        validate(&sp, &model, rows, cols, if rev { "from_vecs (rows descending inside columns)" } else { "from_vecs" })?;
    }
    Ok(())
}

fn history(case: &mut Case) -> Result<(), String> {
    let mut rows = case.src.usize_below(9);
    let mut cols = case.src.usize_below(9);
    let mut model = gen_model(&mut case.src, rows, cols);
    let n0 = model.len();
    let p = case.src.permutation(n0);
    let mut sp = if case.src.coin() { build_from_triplets(&model, rows, cols, &p) } else { build_from_vecs(&model, rows, cols, case.src.coin()) };
    let mut log = vec![format!("start {}x{} {:?}", rows, cols, model)];
    validate(&sp, &model, rows, cols, "initial")?;
    let steps = case.src.urange(1, 25);
    let (mut mods, mut new_inserts) = (0, 0);
    let mut rect_or_empty_col = false;
    for _ in 0..steps {
        match case.src.below(6) {
            0 | 1 | 2 => {
                if rows == 0 || cols == 0 {
                    continue;
                }
                let (r, c, v) = (case.src.usize_below(rows), case.src.usize_below(cols), entry_value(&mut case.src));
                let fresh = !model.contains_key(&(r, c));
                sp.insert(r, c, v);
                model.insert((r, c), v);
                log.push(format!("insert({},{},{:?}){}", r, c, v, if fresh { " new" } else { " overwrite" }));
                mods += 1;
                new_inserts += fresh as usize;
            }
            3 => {
                // overwrite an existing entry (if any)
                if model.is_empty() {
                    continue;
                }
                let k = case.src.usize_below(model.len());
                let (&(r, c), _) = model.iter().nth(k).unwrap();
                let v = entry_value(&mut case.src);
                sp.insert(r, c, v);
                model.insert((r, c), v);
                log.push(format!("insert({},{},{:?}) overwrite", r, c, v));
                mods += 1;
            }
            4 => {
                let s = gen::rat(&mut case.src);
                sp.scale(&s);
                for v in model.values_mut() {
                    *v = *v * s;
                }
                log.push(format!("scale({:?})", s));
                mods += 1;
            }
            _ => {
                sp = sp.transpose();
                model = model.iter().map(|(&(r, c), &v)| ((c, r), v)).collect();
                std::mem::swap(&mut rows, &mut cols);
                log.push("transpose".into());
                mods += 1;
            }
        }
        let has_empty_col = (0..cols).any(|c| !model.keys().any(|&(_, cc)| cc == c));
        rect_or_empty_col |= rows != cols || has_empty_col;
        validate(&sp, &model, rows, cols, &format!("after [{}]", log.join("; ")))?;
    }
    case.class(format!("history mods={}", (mods / 5) * 5));
    if rect_or_empty_col && mods >= 2 && new_inserts >= 1 {
        case.mark_nontrivial();
        case.class("history nontrivial");
    }
    case.describe(|| format!("history: {}", log.join("; ")));
    Ok(())
}

impl Prop for C06 {
    fn id(&self) -> &'static str {
        "C06"
    }
    fn rule(&self) -> String {
        "case families: (0) construction: the 512 + 64 + 64 occupancy patterns of the 3x3, 2x3 and 3x2 grids are enumerated in every run (values random), plus random shapes 0..=8 x 0..=8 \
         with random duplicate-free entry sets (empty rows/columns forced with probability 1/3, 1/4; explicit zero values with probability 1/12); for <= 5 entries (quick: <= 4) \
         every permutation of the triplet order is built, beyond that random permutations plus the reversed order; from_vecs from model-built arrays (rows ascending and descending inside columns); \
         (1) histories of <= 25 steps of insert-new / overwrite / scale / transpose from a random start. After every construction and every step: CSC well-formedness \
         (col_start length, start 0, monotone, last == nonzero == val.len() == row_index.len(), row indices in range, no duplicate coordinate) and agreement of get (every coordinate), \
         to_triplets (as a set), to_dense and col_index (k-th expansion == k-th triplet) with a BTreeMap model. \
         Non-trivial: construction with >= 2 entries that is rectangular or has an empty column; history with >= 2 modifications incl. an insert of a new entry on a rectangular or empty-column matrix. \
         distinct = distinct decoded choice sequence."
            .into()
    }
    fn assumptions(&self) -> Vec<String> {
        vec!["entry sets are duplicate-free (the documented precondition of from_triplets); raw arrays given to from_vecs are well-formed".into()]
    }
    fn stream_len(&self, _tier: Tier) -> usize {
        560
    }
    fn random_cases(&self, tier: Tier) -> usize {
        tier.pick(40_000, 800_000)
    }
    fn enum_prefixes(&self, _tier: Tier) -> Vec<Vec<u32>> {
        let mut v = Vec::new();
        for (g, cells) in [(0u32, 9u32), (1, 6), (2, 6)] {
            for pat in 0..(1u32 << cells) {
                v.push(vec![raw_for(0, 2), raw_for(g, 4), raw_for(pat, 1 << cells)]);
            }
        }
        v
    }
    fn enum_reps(&self, tier: Tier) -> usize {
        tier.pick(2, 10)
    }
    fn enum_note(&self, _tier: Tier) -> Option<String> {
        Some("all 512 + 64 + 64 occupancy patterns of the 3x3, 2x3, 3x2 grids; for each, every permutation of the triplet order when it has <= 5 (quick: 4) entries".into())
    }
    fn run(&self, case: &mut Case) -> Outcome {
        let r = match case.src.below(2) {
            0 => construction(case),
            _ => history(case),
        };
        match r {
            Ok(()) => Outcome::Pass,
            Err(m) => Outcome::Fail(m),
        }
    }
}
