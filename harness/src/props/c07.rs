//! C07 — sparse products equal dense products; transpose is the adjoint.

use super::c06::{build_from_triplets, build_from_vecs, entry_value, Model};
use super::util::to_vector;
use crate::engine::{Case, Outcome, Prop, Tier};
use crate::gen;
use crate::rat::Rat;
use ohsl::Vector;

pub struct C07;

fn dense_mul(model: &Model, rows: usize, x: &[Rat]) -> Vec<Rat> {
    let mut out = vec![Rat::int(0); rows];
    for (&(r, c), &v) in model {
        out[r] = out[r] + v * x[c];
    }
    out
}
fn dense_tmul(model: &Model, cols: usize, y: &[Rat]) -> Vec<Rat> {
    let mut out = vec![Rat::int(0); cols];
    for (&(r, c), &v) in model {
        out[c] = out[c] + v * y[r];
    }
    out
}
fn dot(a: &[Rat], b: &[Rat]) -> Rat {
    a.iter().zip(b).fold(Rat::int(0), |s, (x, y)| s + *x * *y)
}

fn run(case: &mut Case) -> Result<(), String> {
    let rows = case.src.usize_below(11);
    let cols = case.src.usize_below(11);
    let mut model = Model::new();
    if rows > 0 && cols > 0 {
        let dens = case.src.below(6);
        let empty_col = if case.src.below(3) == 0 { Some(case.src.usize_below(cols)) } else { None };
        let empty_row = if case.src.below(3) == 0 { Some(case.src.usize_below(rows)) } else { None };
        for r in 0..rows {
            for c in 0..cols {
                if Some(c) != empty_col && Some(r) != empty_row && case.src.below(5) < dens {
                    model.insert((r, c), entry_value(&mut case.src));
                }
            }
        }
    }
    // non-constant vectors so that the pairing of entries and components matters
    let x: Vec<Rat> = (0..cols).map(|j| gen::rat(&mut case.src) + Rat::int(j as i64 % 3)).collect();
    let y: Vec<Rat> = (0..rows).map(|i| gen::rat(&mut case.src) - Rat::int(i as i64 % 2)).collect();
    let n = model.len();
    let p = case.src.permutation(n);
    let mut sp = match case.src.below(5) {
        0 => build_from_vecs(&model, rows, cols, case.src.coin()),
        1 => {
            // every entry inserted into an empty matrix, in the order of the permutation
            let ents: Vec<((usize, usize), Rat)> = model.iter().map(|(k, v)| (*k, *v)).collect();
            let mut m: ohsl::Sparse<Rat> = ohsl::Sparse::from_triplets(rows, cols, &mut Vec::new());
            for &k in &p {
                m.insert(ents[k].0 .0, ents[k].0 .1, ents[k].1);
            }
            case.class("built by inserts");
            m
        }
        _ => build_from_triplets(&model, rows, cols, &p),
    };
    let distinct = |v: &[Rat]| v.iter().any(|a| *a != v[0]);
    case.class(if rows == cols { "square" } else if rows < cols { "wide" } else { "tall" });
    if rows == 0 || cols == 0 {
        case.class("empty dimension");
    }
    if n == 0 {
        case.class("no entries");
    }
    if rows != cols && n >= 2 && x.len() >= 2 && distinct(&x) {
        case.mark_nontrivial();
    }
    case.describe(|| format!("{}x{} entries={:?} x={:?} y={:?}", rows, cols, model, x, y));
    let (xv, yv): (Vector<Rat>, Vector<Rat>) = (to_vector(&x), to_vector(&y));

    let ax = sp.multiply(&xv).vec;
    let e = dense_mul(&model, rows, &x);
    if ax != e {
        return Err(format!("multiply = {:?}, dense A x = {:?}", ax, e));
    }
    let aty = sp.transpose_multiply(&yv).vec;
    let et = dense_tmul(&model, cols, &y);
    if aty != et {
        return Err(format!("transpose_multiply = {:?}, dense A^T y = {:?}", aty, et));
    }
    let t = sp.transpose();
    if t.rows != cols || t.cols != rows {
        return Err(format!("transpose has shape {}x{}", t.rows, t.cols));
    }
    let ty = t.multiply(&yv).vec;
    if ty != aty {
        return Err(format!("transpose().multiply(y) = {:?} != transpose_multiply(y) = {:?}", ty, aty));
    }
    let tx = t.transpose_multiply(&xv).vec;
    if tx != ax {
        return Err(format!("transpose().transpose_multiply(x) = {:?} != multiply(x) = {:?}", tx, ax));
    }
    // adjoint identity <y, A x> = <A^T y, x>
    if dot(&y, &ax) != dot(&aty, &x) {
        return Err(format!("<y, A x> = {:?} != <A^T y, x> = {:?}", dot(&y, &ax), dot(&aty, &x)));
    }
    // the same identity through the library's own Vector::dot (also for empty dimensions)
    {
        let (axv, atyv) = (sp.multiply(&xv), sp.transpose_multiply(&yv));
        let (l, r) = (yv.dot(&axv), atyv.dot(&xv));
        if l != r || l != dot(&y, &ax) {
            return Err(format!("y.dot(A x) = {:?}, (A^T y).dot(x) = {:?}, exact {:?}", l, r, dot(&y, &ax)));
        }
    }
    if xv.vec != x || yv.vec != y {
        return Err("a product modified its vector operand".into());
    }
    // scaling scales every product
    let s = gen::rat(&mut case.src);
    sp.scale(&s);
    let sax = sp.multiply(&xv).vec;
    let saty = sp.transpose_multiply(&yv).vec;
    let scaled = |v: &[Rat]| -> Vec<Rat> { v.iter().map(|a| *a * s).collect() };
    if sax != scaled(&ax) {
        return Err(format!("after scale({:?}): multiply = {:?}, expected {:?}", s, sax, scaled(&ax)));
    }
    if saty != scaled(&aty) {
        return Err(format!("after scale({:?}): transpose_multiply = {:?}, expected {:?}", s, saty, scaled(&aty)));
    }
    // the other order: transpose first, then scale the transposed matrix, then multiply
    {
        let mut tt = t; // transpose of the unscaled matrix, taken above
        tt.scale(&s);
        let a1 = tt.multiply(&yv).vec;
        let a2 = tt.transpose_multiply(&xv).vec;
        if a1 != scaled(&aty) || a2 != scaled(&ax) {
            return Err(format!("transpose() then scale({:?}): multiply = {:?} (expected {:?}), transpose_multiply = {:?} (expected {:?})", s, a1, scaled(&aty), a2, scaled(&ax)));
        }
        let back = tt.transpose();
        if back.multiply(&xv).vec != scaled(&ax) {
            return Err(format!("transpose, scale({:?}), transpose again: multiply = {:?}, expected {:?}", s, back.multiply(&xv).vec, scaled(&ax)));
        }
    }
    let st = sp.transpose().multiply(&yv).vec;
    if st != scaled(&aty) {
        return Err(format!("after scale({:?}): transpose().multiply = {:?}, expected {:?}", s, st, scaled(&aty)));
    }
    Ok(())
}

// ------------------------------------------------------------------ machine number types (f64, i64) on integer data
trait Mach: Copy + ohsl::Number + std::fmt::Debug + PartialEq + 'static {
    const NAME: &'static str;
    fn from_i(v: i64) -> Self;
}
impl Mach for f64 {
    const NAME: &'static str = "f64";
    fn from_i(v: i64) -> Self {
        v as f64
    }
}
impl Mach for i64 {
    const NAME: &'static str = "i64";
    fn from_i(v: i64) -> Self {
        v
    }
}

/// The same identities for `Sparse<f64>` and `Sparse<i64>` on small integer data (every product and sum exact, so the
/// i64 model is the exact oracle): other instantiations than the rational one may take other code paths.  The matrix is
/// built from shuffled triplets, from raw arrays, entirely by `insert` into an empty matrix, or half and half.
fn run_machine<T: Mach>(case: &mut Case) -> Result<(), String> {
    let rows = case.src.usize_below(13);
    let cols = case.src.usize_below(13);
    let mut model: std::collections::BTreeMap<(usize, usize), i64> = Default::default();
    if rows > 0 && cols > 0 {
        let dens = 1 + case.src.below(5);
        for r in 0..rows {
            for c in 0..cols {
                if case.src.below(5) < dens {
                    model.insert((r, c), if case.src.below(12) == 0 { 0 } else { case.src.small_int(9) });
                }
            }
        }
    }
    let x: Vec<i64> = (0..cols).map(|j| case.src.small_int(9) + j as i64 % 3).collect();
    let y: Vec<i64> = (0..rows).map(|i| case.src.small_int(9) - i as i64 % 2).collect();
    let mut entries: Vec<((usize, usize), i64)> = model.iter().map(|(k, v)| (*k, *v)).collect();
    let n = entries.len();
    let perm = case.src.permutation(n);
    let mode = case.src.below(4);
    let trip = |idx: &[usize]| -> Vec<(usize, usize, T)> { idx.iter().map(|&k| (entries[k].0 .0, entries[k].0 .1, T::from_i(entries[k].1))).collect() };
    let mut sp: ohsl::Sparse<T> = match mode {
        0 => ohsl::Sparse::from_triplets(rows, cols, &mut trip(&perm)),
        1 => {
            let (mut val, mut ri, mut cs) = (Vec::new(), Vec::new(), vec![0usize; cols + 1]);
            for c in 0..cols {
                for ((r, cc), v) in &entries {
                    if *cc == c {
                        ri.push(*r);
                        val.push(T::from_i(*v));
                    }
                }
                cs[c + 1] = val.len();
            }
            ohsl::Sparse::from_vecs(rows, cols, val, ri, cs)
        }
        _ => {
            // mode 2: every entry inserted into an empty matrix; mode 3: the first half from triplets, the rest inserted
            let k = if mode == 2 { 0 } else { n / 2 };
            let mut m = ohsl::Sparse::from_triplets(rows, cols, &mut trip(&perm[..k]));
            for &e in &perm[k..] {
                m.insert(entries[e].0 .0, entries[e].0 .1, T::from_i(entries[e].1));
            }
            m
        }
    };
    // overwrite up to three stored entries through insert() (one of them with the value it already holds)
    if n > 0 {
        for t in 0..case.src.usize_below(4) {
            let e = case.src.usize_below(n);
            let nv = if t == 0 { entries[e].1 } else { case.src.small_int(9) };
            sp.insert(entries[e].0 .0, entries[e].0 .1, T::from_i(nv));
            entries[e].1 = nv;
            model.insert(entries[e].0, nv);
        }
    }
    let entries = entries;
    let maxcol = (0..cols).map(|c| entries.iter().filter(|e| e.0 .1 == c).count()).max().unwrap_or(0);
    case.class(format!("{} built by {}", T::NAME, ["from_triplets", "from_vecs", "inserts only", "triplets then inserts"][mode as usize]));
    case.class(format!("{} fullest column holds {}", T::NAME, if maxcol >= 9 { ">= 9 entries" } else if maxcol >= 5 { "5..8 entries" } else { "<= 4 entries" }));
    if rows != cols && n >= 2 && maxcol >= 5 {
        case.mark_nontrivial();
    }
    case.describe(|| format!("{} {}x{} mode={} entries={:?} order={:?} x={:?} y={:?}", T::NAME, rows, cols, mode, entries, perm, x, y));
    let tv = |v: &[i64]| -> Vector<T> { Vector::create(v.iter().map(|a| T::from_i(*a)).collect()) };
    let same = |got: &Vector<T>, exp: &[i64]| -> bool { got.vec.len() == exp.len() && got.vec.iter().zip(exp).all(|(g, e)| *g == T::from_i(*e)) };
    let (xv, yv) = (tv(&x), tv(&y));
    let mut ax = vec![0i64; rows];
    let mut aty = vec![0i64; cols];
    for ((r, c), v) in &entries {
        ax[*r] += v * x[*c];
        aty[*c] += v * y[*r];
    }
    if sp.nonzero != n || sp.val.len() != n || sp.row_index.len() != n || sp.col_start.len() != cols + 1 || sp.col_start[cols] != n {
        return Err(format!("entry counts: nonzero = {}, val {}, row_index {}, col_start {:?}; {} entries were stored", sp.nonzero, sp.val.len(), sp.row_index.len(), sp.col_start, n));
    }
    for ((r, c), v) in &entries {
        if sp.get(*r, *c) != Some(T::from_i(*v)) {
            return Err(format!("get({},{}) = {:?}, stored {}", r, c, sp.get(*r, *c), v));
        }
    }
    // the other views of this instantiation (C06 checks them in depth over rationals)
    {
        let d = sp.to_dense();
        if d.rows() != rows || d.cols() != cols {
            return Err(format!("to_dense() has shape {}x{}", d.rows(), d.cols()));
        }
        for r in 0..rows {
            for c in 0..cols {
                let e = T::from_i(model.get(&(r, c)).copied().unwrap_or(0));
                if d[(r, c)] != e {
                    return Err(format!("to_dense()[({},{})] = {:?}, expected {:?}", r, c, d[(r, c)], e));
                }
            }
        }
        let mut tr: Vec<(usize, usize, T)> = sp.to_triplets();
        tr.sort_by(|a, b| (a.1, a.0).cmp(&(b.1, b.0)));
        let mut ex: Vec<(usize, usize, T)> = entries.iter().map(|((r, c), v)| (*r, *c, T::from_i(*v))).collect();
        ex.sort_by(|a, b| (a.1, a.0).cmp(&(b.1, b.0)));
        if tr != ex {
            return Err(format!("to_triplets() = {:?}, stored {:?}", tr, ex));
        }
        let ci = sp.col_index();
        if ci.vec.len() != n || sp.col_start_from_index(&ci) != sp.col_start {
            return Err(format!("col_index() = {:?} does not compress back to col_start = {:?}", ci.vec, sp.col_start));
        }
    }
    if !same(&sp.multiply(&xv), &ax) {
        return Err(format!("multiply = {:?}, dense A x = {:?}", sp.multiply(&xv).vec, ax));
    }
    if !same(&sp.transpose_multiply(&yv), &aty) {
        return Err(format!("transpose_multiply = {:?}, dense A^T y = {:?}", sp.transpose_multiply(&yv).vec, aty));
    }
    let t = match crate::engine::catch(|| sp.transpose()) {
        Ok(t) => t,
        Err(e) => return Err(format!("transpose() panicked: {}", e)),
    };
    if t.rows != cols || t.cols != rows || t.nonzero != n {
        return Err(format!("transpose has shape {}x{} and {} entries", t.rows, t.cols, t.nonzero));
    }
    if !same(&t.multiply(&yv), &aty) || !same(&t.transpose_multiply(&xv), &ax) {
        return Err(format!("transpose(): multiply = {:?} (expected {:?}), transpose_multiply = {:?} (expected {:?})", t.multiply(&yv).vec, aty, t.transpose_multiply(&xv).vec, ax));
    }
    let lhs: i64 = y.iter().zip(&ax).map(|(a, b)| a * b).sum();
    if yv.dot(&sp.multiply(&xv)) != T::from_i(lhs) || sp.transpose_multiply(&yv).dot(&xv) != T::from_i(lhs) {
        return Err(format!("<y, A x> = {:?}, <A^T y, x> = {:?}, exact {}", yv.dot(&sp.multiply(&xv)), sp.transpose_multiply(&yv).dot(&xv), lhs));
    }
    let s = case.src.small_int(7);
    sp.scale(&T::from_i(s));
    let sc = |v: &[i64]| -> Vec<i64> { v.iter().map(|a| a * s).collect() };
    if !same(&sp.multiply(&xv), &sc(&ax)) || !same(&sp.transpose_multiply(&yv), &sc(&aty)) {
        return Err(format!("after scale({}): multiply = {:?} (expected {:?}), transpose_multiply = {:?} (expected {:?})", s, sp.multiply(&xv).vec, sc(&ax), sp.transpose_multiply(&yv).vec, sc(&aty)));
    }
    let mut tt = t;
    tt.scale(&T::from_i(s));
    if !same(&tt.multiply(&yv), &sc(&aty)) || !same(&tt.transpose().multiply(&xv), &sc(&ax)) {
        return Err(format!("transpose() then scale({}): products differ from {} times the products before", s, s));
    }
    if !same(&sp.transpose().multiply(&yv), &sc(&aty)) {
        return Err(format!("scale({}) then transpose(): multiply = {:?}, expected {:?}", s, sp.transpose().multiply(&yv).vec, sc(&aty)));
    }
    Ok(())
}

impl Prop for C07 {
    fn id(&self) -> &'static str {
        "C07"
    }
    fn rule(&self) -> String {
        "half of the cases over exact rationals: random shapes 0..=10 x 0..=10, duplicate-free patterns of density 0..1 with forced empty rows/columns (probability 1/3 each), built from triplets in a random order (3/5), raw CSC arrays (1/5) or by inserting every entry into an empty matrix (1/5); \
         small rational values; non-constant rational vectors. multiply vs dense A x, transpose_multiply vs dense A^T y, transpose().multiply == transpose_multiply, \
         transpose().transpose_multiply == multiply, <y,Ax> == <A^T y,x>, and all products after scale(s) equal s times the products before, in both orders (scale then transpose, transpose then scale, and transposed back); all exact. \
         The other half runs the same identities for Sparse<f64> and Sparse<i64> on small integer data (shapes up to 12 x 12, columns with up to 12 entries; built from triplets, raw arrays, inserts only, or triplets then inserts) against an i64 model, entry counts and get() included. \
         Non-trivial: rows != cols, >= 2 entries, vector with >= 2 distinct components. distinct = distinct decoded choice sequence."
            .into()
    }
    fn assumptions(&self) -> Vec<String> {
        vec!["results are bilinear in entries and vector, so agreement on random rational points is a polynomial-identity test".into()]
    }
    fn stream_len(&self, _tier: Tier) -> usize {
        560
    }
    fn random_cases(&self, tier: Tier) -> usize {
        tier.pick(150_000, 3_000_000)
    }
    fn run(&self, case: &mut Case) -> Outcome {
        let r = match case.src.below(4) {
            0 | 1 => run(case),
            2 => run_machine::<f64>(case),
            _ => run_machine::<i64>(case),
        };
        match r {
            Ok(()) => Outcome::Pass,
            Err(m) => Outcome::Fail(m),
        }
    }
}
