//! C07 — sparse products equal dense products; transpose is the adjoint.

use super::c06::{build_from_triplets, build_from_vecs, entry_value, Model};
use super::util::to_vector;
use crate::engine::{Case, Outcome, Prop, Tier};
use crate::gen;
use crate::rat::Rat;
use ohsl::Vector;

pub struct C07;

fn dense_mul(model: &Model, rows: usize, x: &[Rat]) -> Vec<Rat> {
    let mut out = vec![Rat::int(0); rows];
    for (&(r, c), &v) in model {
        out[r] = out[r] + v * x[c];
    }
    out
}
fn dense_tmul(model: &Model, cols: usize, y: &[Rat]) -> Vec<Rat> {
    let mut out = vec![Rat::int(0); cols];
    for (&(r, c), &v) in model {
        out[c] = out[c] + v * y[r];
    }
    out
}
fn dot(a: &[Rat], b: &[Rat]) -> Rat {
    a.iter().zip(b).fold(Rat::int(0), |s, (x, y)| s + *x * *y)
}

fn run(case: &mut Case) -> Result<(), String> {
    let rows = case.src.usize_below(11);
    let cols = case.src.usize_below(11);
    let mut model = Model::new();
    if rows > 0 && cols > 0 {
        let dens = case.src.below(6);
        let empty_col = if case.src.below(3) == 0 { Some(case.src.usize_below(cols)) } else { None };
        let empty_row = if case.src.below(3) == 0 { Some(case.src.usize_below(rows)) } else { None };
        for r in 0..rows {
            for c in 0..cols {
                if Some(c) != empty_col && Some(r) != empty_row && case.src.below(5) < dens {
                    model.insert((r, c), entry_value(&mut case.src));
                }
            }
        }
    }
    // non-constant vectors so that the pairing of entries and components matters
    let x: Vec<Rat> = (0..cols).map(|j| gen::rat(&mut case.src) + Rat::int(j as i64 % 3)).collect();
    let y: Vec<Rat> = (0..rows).map(|i| gen::rat(&mut case.src) - Rat::int(i as i64 % 2)).collect();
    let n = model.len();
    let p = case.src.permutation(n);
    let mut sp = if case.src.below(4) == 0 { build_from_vecs(&model, rows, cols, case.src.coin()) } else { build_from_triplets(&model, rows, cols, &p) };
    let distinct = |v: &[Rat]| v.iter().any(|a| *a != v[0]);
    case.class(if rows == cols { "square" } else if rows < cols { "wide" } else { "tall" });
    if rows == 0 || cols == 0 {
        case.class("empty dimension");
    }
    if n == 0 {
        case.class("no entries");
    }
    if rows != cols && n >= 2 && x.len() >= 2 && distinct(&x) {
        case.mark_nontrivial();
    }
    case.describe(|| format!("{}x{} entries={:?} x={:?} y={:?}", rows, cols, model, x, y));
    let (xv, yv): (Vector<Rat>, Vector<Rat>) = (to_vector(&x), to_vector(&y));

    let ax = sp.multiply(&xv).vec;
    let e = dense_mul(&model, rows, &x);
    if ax != e {
        return Err(format!("multiply = {:?}, dense A x = {:?}", ax, e));
    }
    let aty = sp.transpose_multiply(&yv).vec;
    let et = dense_tmul(&model, cols, &y);
    if aty != et {
        return Err(format!("transpose_multiply = {:?}, dense A^T y = {:?}", aty, et));
    }
    let t = sp.transpose();
    if t.rows != cols || t.cols != rows {
        return Err(format!("transpose has shape {}x{}", t.rows, t.cols));
    }
    let ty = t.multiply(&yv).vec;
    if ty != aty {
        return Err(format!("transpose().multiply(y) = {:?} != transpose_multiply(y) = {:?}", ty, aty));
    }
    let tx = t.transpose_multiply(&xv).vec;
    if tx != ax {
        return Err(format!("transpose().transpose_multiply(x) = {:?} != multiply(x) = {:?}", tx, ax));
    }
    // adjoint identity <y, A x> = <A^T y, x>
    if dot(&y, &ax) != dot(&aty, &x) {
        return Err(format!("<y, A x> = {:?} != <A^T y, x> = {:?}", dot(&y, &ax), dot(&aty, &x)));
    }
    // the same identity through the library's own Vector::dot (also for empty dimensions)
    {
        let (axv, atyv) = (sp.multiply(&xv), sp.transpose_multiply(&yv));
        let (l, r) = (yv.dot(&axv), atyv.dot(&xv));
        if l != r || l != dot(&y, &ax) {
            return Err(format!("y.dot(A x) = {:?}, (A^T y).dot(x) = {:?}, exact {:?}", l, r, dot(&y, &ax)));
        }
    }
    if xv.vec != x || yv.vec != y {
        return Err("a product modified its vector operand".into());
    }
    // scaling scales every product
    let s = gen::rat(&mut case.src);
    sp.scale(&s);
    let sax = sp.multiply(&xv).vec;
    let saty = sp.transpose_multiply(&yv).vec;
    let scaled = |v: &[Rat]| -> Vec<Rat> { v.iter().map(|a| *a * s).collect() };
    if sax != scaled(&ax) {
        return Err(format!("after scale({:?}): multiply = {:?}, expected {:?}", s, sax, scaled(&ax)));
    }
    if saty != scaled(&aty) {
        return Err(format!("after scale({:?}): transpose_multiply = {:?}, expected {:?}", s, saty, scaled(&aty)));
    }
    // the other order: transpose first, then scale the transposed matrix, then multiply
    {
        let mut tt = t; // transpose of the unscaled matrix, taken above
        tt.scale(&s);
        let a1 = tt.multiply(&yv).vec;
        let a2 = tt.transpose_multiply(&xv).vec;
        if a1 != scaled(&aty) || a2 != scaled(&ax) {
            return Err(format!("transpose() then scale({:?}): multiply = {:?} (expected {:?}), transpose_multiply = {:?} (expected {:?})", s, a1, scaled(&aty), a2, scaled(&ax)));
        }
        let back = tt.transpose();
        if back.multiply(&xv).vec != scaled(&ax) {
            return Err(format!("transpose, scale({:?}), transpose again: multiply = {:?}, expected {:?}", s, back.multiply(&xv).vec, scaled(&ax)));
        }
    }
    let st = sp.transpose().multiply(&yv).vec;
    if st != scaled(&aty) {
        return Err(format!("after scale({:?}): transpose().multiply = {:?}, expected {:?}", s, st, scaled(&aty)));
    }
    Ok(())
}

impl Prop for C07 {
    fn id(&self) -> &'static str {
        "C07"
    }
    fn rule(&self) -> String {
        "random shapes 0..=10 x 0..=10, duplicate-free patterns of density 0..1 with forced empty rows/columns (probability 1/3 each), built from triplets in a random order (3/4) or raw CSC arrays (1/4); \
         small rational values; non-constant rational vectors. multiply vs dense A x, transpose_multiply vs dense A^T y, transpose().multiply == transpose_multiply, \
         transpose().transpose_multiply == multiply, <y,Ax> == <A^T y,x>, and all products after scale(s) equal s times the products before, in both orders (scale then transpose, transpose then scale, and transposed back); all exact. \
         Non-trivial: rows != cols, >= 2 entries, vector with >= 2 distinct components. distinct = distinct decoded choice sequence."
            .into()
    }
    fn assumptions(&self) -> Vec<String> {
        vec!["results are bilinear in entries and vector, so agreement on random rational points is a polynomial-identity test".into()]
    }
    fn stream_len(&self, _tier: Tier) -> usize {
        560
    }
    fn random_cases(&self, tier: Tier) -> usize {
        tier.pick(150_000, 3_000_000)
    }
    fn run(&self, case: &mut Case) -> Outcome {
        match run(case) {
            Ok(()) => Outcome::Pass,
            Err(m) => Outcome::Fail(m),
        }
    }
}
