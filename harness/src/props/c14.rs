//! C14 — complex elementary, trigonometric and hyperbolic functions match their
//! definitions, invert correctly and use the principal branches.

use super::util::EPS;
use crate::engine::{Case, Outcome, Prop, Tier};
use crate::refla::{cabs, cadd, cdiv, cmul, csub, C};
use crate::stream::Src;
use ohsl::Cmplx;
use std::f64::consts::{FRAC_PI_2, PI};

pub struct C14;

// ------------------------------------------------------------------ reference functions
// (formulas independent of ohsl's: Smith division, hypot, Kahan's square root, logarithm via
//  ln(hypot)/atan2, closed forms from the real std functions, Kahan-style inverse functions)
const I: C = (0.0, 1.0);
const ONE: C = (1.0, 0.0);

fn r_exp(z: C) -> C {
    let e = z.0.exp();
    (e * z.1.cos(), e * z.1.sin())
}
fn r_ln(z: C) -> C {
    (z.0.hypot(z.1).ln(), z.1.atan2(z.0))
}
fn r_sqrt(z: C) -> C {
    if z.0 == 0.0 && z.1 == 0.0 {
        return (0.0, z.1);
    }
    let t = ((z.0.abs() + z.0.hypot(z.1)) / 2.0).sqrt();
    if z.0 >= 0.0 {
        (t, z.1 / (2.0 * t))
    } else {
        (z.1.abs() / (2.0 * t), t.copysign(z.1))
    }
}
fn r_sin(z: C) -> C {
    (z.0.sin() * z.1.cosh(), z.0.cos() * z.1.sinh())
}
fn r_cos(z: C) -> C {
    (z.0.cos() * z.1.cosh(), -z.0.sin() * z.1.sinh())
}
fn r_sinh(z: C) -> C {
    (z.0.sinh() * z.1.cos(), z.0.cosh() * z.1.sin())
}
fn r_cosh(z: C) -> C {
    (z.0.cosh() * z.1.cos(), z.0.sinh() * z.1.sin())
}
fn r_tan(z: C) -> C {
    cdiv(r_sin(z), r_cos(z))
}
fn r_tanh(z: C) -> C {
    cdiv(r_sinh(z), r_cosh(z))
}
fn r_inv(z: C) -> C {
    cdiv(ONE, z)
}
fn neg(z: C) -> C {
    (-z.0, -z.1)
}
fn scale(z: C, s: f64) -> C {
    (z.0 * s, z.1 * s)
}
fn r_asin(z: C) -> C {
    // -i ln(iz + sqrt(1 - z^2))
    let s = r_sqrt(csub(ONE, cmul(z, z)));
    cmul(neg(I), r_ln(cadd(cmul(I, z), s)))
}
fn r_acos(z: C) -> C {
    let a = r_asin(z);
    (FRAC_PI_2 - a.0, -a.1)
}
fn r_atan(z: C) -> C {
    // (i/2) [ln(1 - iz) - ln(1 + iz)]
    let iz = cmul(I, z);
    cmul(scale(I, 0.5), csub(r_ln(csub(ONE, iz)), r_ln(cadd(ONE, iz))))
}
fn r_asinh(z: C) -> C {
    r_ln(cadd(z, r_sqrt(cadd(cmul(z, z), ONE))))
}
fn r_acosh(z: C) -> C {
    r_ln(cadd(z, cmul(r_sqrt(csub(z, ONE)), r_sqrt(cadd(z, ONE)))))
}
fn r_atanh(z: C) -> C {
    scale(csub(r_ln(cadd(ONE, z)), r_ln(csub(ONE, z))), 0.5)
}

/// cancellation factor (|a| + |b|) / |a + b| of a sum
fn canc(a: C, b: C) -> f64 {
    let d = cabs(cadd(a, b));
    if d == 0.0 {
        f64::INFINITY
    } else {
        (cabs(a) + cabs(b)) / d
    }
}
/// Rounding-error amplification (in units of eps, absolute error of the result) of the logarithmic formula each
/// inverse function is defined by, evaluated at the actual argument: the cancellation inside the logarithm's
/// argument and the conditioning of the square root next to its branch point.  Any implementation of the same
/// formula in double precision has an error of this order, in either half plane - and not more.
fn amp_asin_like(z: C, plus: bool) -> f64 {
    // ln( i z + sqrt(1 - z^2) )  (plus = false)   /   ln( z + sqrt(z^2 + 1) )  (plus = true)
    let z2 = cmul(z, z);
    let w = if plus { cadd(z2, ONE) } else { csub(ONE, z2) };
    let s = r_sqrt(w);
    let lead = if plus { z } else { cmul(I, z) };
    let u = cadd(lead, s);
    let ew = (1.0 + cabs(z2)) / cabs(w).max(1e-300);
    (cabs(lead) + cabs(s) * (1.0 + ew)) / cabs(u).max(1e-300) + canc(lead, s)
}
fn amp_acosh(z: C) -> f64 {
    let (a, b) = (csub(z, ONE), cadd(z, ONE));
    let s = cmul(r_sqrt(a), r_sqrt(b));
    let u = cadd(z, s);
    let e = (1.0 + cabs(z)) / cabs(a).max(1e-300) + (1.0 + cabs(z)) / cabs(b).max(1e-300);
    (cabs(z) + cabs(s) * (1.0 + e)) / cabs(u).max(1e-300) + canc(z, s)
}
fn amp_atan_like(z: C, hyperbolic: bool) -> f64 {
    // ln(1 - i z) - ln(1 + i z)   /   ln(1 + z) - ln(1 - z)
    let t = if hyperbolic { z } else { cmul(I, z) };
    let (a, b) = (cadd(ONE, t), csub(ONE, t));
    (1.0 + cabs(t)) / cabs(a).max(1e-300) + (1.0 + cabs(t)) / cabs(b).max(1e-300) + cabs(r_ln(a)) + cabs(r_ln(b))
}
/// conditioning |w g'(w)| of a reference function, estimated by a relative perturbation in two directions
fn cond_of(g: fn(C) -> C, w: C) -> f64 {
    let eta = 1e-7;
    let g0 = g(w);
    let d1 = dist(g(cmul(w, (1.0 + eta, 0.0))), g0);
    let d2 = dist(g(cmul(w, (1.0, eta))), g0);
    let c = d1.max(d2) / eta;
    if c.is_finite() {
        c
    } else {
        f64::INFINITY
    }
}

fn c(z: C) -> Cmplx {
    Cmplx::new(z.0, z.1)
}
fn t(z: Cmplx) -> C {
    (z.real, z.imag)
}
fn dist(a: C, b: C) -> f64 {
    cabs(csub(a, b))
}
fn fin(z: C) -> bool {
    z.0.is_finite() && z.1.is_finite()
}

// ------------------------------------------------------------------ point generator
struct Pt {
    z: C,
    region: &'static str,
    /// exactly on a coordinate axis (then principal values on cuts are not compared)
    on_axis: bool,
}

fn gen_point(src: &mut Src) -> Pt {
    let r = 10f64.powf(src.f64_in(-3.0, 1.0));
    match src.below(8) {
        0 | 1 => {
            let th = src.f64_in(-PI, PI);
            Pt { z: (r * th.cos(), r * th.sin()), region: "generic", on_axis: false }
        }
        2 => {
            if src.below(4) == 0 {
                // exact special points (functions singular there are skipped by the singularity rule)
                let z = [(1.0, 0.0), (-1.0, 0.0), (0.0, 1.0), (0.0, -1.0), (0.5, 0.0), (-0.5, 0.0), (2.0, 0.0), (-2.0, 0.0), (0.0, 2.0), (0.0, -0.5), (1.0, 1.0), (-1.0, 1.0), (1.0, -1.0), (-1.0, -1.0), (std::f64::consts::E, 0.0), (10.0, 0.0)][src.usize_below(16)];
                Pt { z, region: "special-point", on_axis: z.0 == 0.0 || z.1 == 0.0 }
            } else {
                let th = src.f64_in(-PI, PI);
                Pt { z: (r * th.cos(), r * th.sin()), region: "generic", on_axis: false }
            }
        }
        3 => {
            // exactly on one of the four half-axes, the other component +0.0
            let z = match src.below(4) {
                0 => (r, 0.0),
                1 => (-r, 0.0),
                2 => (0.0, r),
                _ => (0.0, -r),
            };
            Pt { z, region: "on-axis", on_axis: true }
        }
        4 | 5 => {
            // within 1e-12 .. 1e-6 of an axis, on either side
            let d = 10f64.powf(src.f64_in(-12.0, -6.0)) * if src.coin() { 1.0 } else { -1.0 };
            let z = match src.below(4) {
                0 => (r, d),
                1 => (-r, d),
                2 => (d, r),
                _ => (d, -r),
            };
            Pt { z, region: "near-axis", on_axis: false }
        }
        _ => {
            // within 1e-9 .. 1e-1 of a branch point +-1, +-i
            let d = 10f64.powf(src.f64_in(-9.0, -1.0));
            let th = src.f64_in(-PI, PI);
            let b = [(1.0, 0.0), (-1.0, 0.0), (0.0, 1.0), (0.0, -1.0)][src.below(4) as usize];
            Pt { z: (b.0 + d * th.cos(), b.1 + d * th.sin()), region: "near-branch-point", on_axis: false }
        }
    }
}

/// distance of z to the nearest of the branch points / singular points +-1, +-i, 0
fn bp_dist(z: C) -> f64 {
    [(1.0, 0.0), (-1.0, 0.0), (0.0, 1.0), (0.0, -1.0), (0.0, 0.0)].iter().map(|b| dist(z, *b)).fold(f64::INFINITY, f64::min)
}

struct Ctx<'a> {
    worst: Option<String>,
    case_note: &'a mut Vec<(&'static str, f64)>,
}
impl<'a> Ctx<'a> {
    /// `err` must not exceed `k * eps * amp`
    fn chk(&mut self, name: &'static str, err: f64, amp: f64, k: f64, detail: impl FnOnce() -> String) {
        let unit = EPS * amp;
        if crate::calib::on() && unit > 0.0 {
            self.case_note.push((name, err / unit));
        }
        if !(err <= k * unit) && self.worst.is_none() {
            self.worst = Some(format!("{}: error {:.3e} > {:.0} * eps * {:.3e}; {}", name, err, k, amp, detail()));
        }
    }
    fn must(&mut self, name: &'static str, ok: bool, detail: impl FnOnce() -> String) {
        if !ok && self.worst.is_none() {
            self.worst = Some(format!("{}: {}", name, detail()));
        }
    }
}

/// tolerance multipliers (x eps x amplification).  Calibrated on the pinned tree over 30M points
/// (5 seeds): the worst observed multiplier per check is listed in DESIGN.md section 5/C14; every K below
/// leaves >= 100x head-room.
const K_FWD: f64 = 400.0;
const K_INV: f64 = 100.0;

fn near_cut_discontinuity(f: fn(C) -> C, z: C) -> bool {
    // the reference changes by O(1) across the axis the point lies on => z is on a cut of f
    let d = 1e-13 * (1.0 + cabs(z));
    let (a, b) = if z.1 == 0.0 { (f((z.0, d)), f((z.0, -d))) } else { (f((d, z.1)), f((-d, z.1))) };
    !(dist(a, b) < 1e-6)
}

fn run(case: &mut Case) -> Result<Outcome, String> {
    let mut p = gen_point(&mut case.src);
    let z = p.z;
    // any region can land exactly on an axis (angle exactly 0 in the near-branch-point region: found by the fuzz stage)
    p.on_axis = z.0 == 0.0 || z.1 == 0.0;
    let az = cabs(z);
    let zc = c(z);
    let w: C = if case.src.below(4) == 0 {
        // exact special exponents (an implementation may special-case them)
        [(0.0, 0.0), (1.0, 0.0), (2.0, 0.0), (-1.0, 0.0), (0.5, 0.0), (3.0, 0.0), (-2.0, 0.0), (0.0, 1.0), (1.0, 1.0), (-0.5, 0.0), (1.0 / 3.0, 0.0), (2.0, 1e-9)][case.src.usize_below(12)]
    } else if case.src.coin() { (case.src.f64_in(-3.0, 3.0), 0.0) } else { let r = case.src.f64_in(0.0, 3.0); let th = case.src.f64_in(-PI, PI); (r * th.cos(), r * th.sin()) };
    let base: C = { let r = 10f64.powf(case.src.f64_in(-2.0, 1.0)); let th = case.src.f64_in(-3.0, 3.0); (r * th.cos() + 0.0, r * th.sin()) };
    let quad = if z.0 > 0.0 && z.1 > 0.0 { "Q1" } else { "other-quadrant-or-axis" };
    case.class(format!("{} {}", p.region, quad));
    if quad != "Q1" || bp_dist(z) < 1e-3 || z.0.abs() < 1e-3 * az || z.1.abs() < 1e-3 * az {
        case.mark_nontrivial();
    }
    case.describe(|| format!("z=({:e}, {:e}) region={} w=({:e},{:e}) base=({:e},{:e})", z.0, z.1, p.region, w.0, w.1, base.0, base.1));
    let mut notes: Vec<(&'static str, f64)> = Vec::new();
    let mut cx = Ctx { worst: None, case_note: &mut notes };
    let lnz = r_ln(z);

    // ---------------- elementary
    let e = t(zc.exp());
    cx.chk("exp vs e^x(cos y + i sin y)", dist(e, r_exp(z)), cabs(r_exp(z)), K_FWD, || format!("exp = {:?}", e));
    let l = t(zc.ln());
    cx.chk("ln vs ln|z| + i arg z", dist(l, lnz), 1.0 + cabs(lnz), K_FWD, || format!("ln = {:?}, reference {:?}", l, lnz));
    cx.must("Im ln z in (-pi, pi]", l.1 > -PI - 1e-15 && l.1 <= PI, || format!("Im ln z = {:e}", l.1));
    cx.chk("exp(ln z) = z", dist(r_exp(l), z), az * (1.0 + cabs(lnz)), K_FWD, || format!("ln = {:?}", l));
    let s = t(zc.sqrt());
    cx.chk("sqrt vs Kahan sqrt", dist(s, r_sqrt(z)), az.sqrt(), K_FWD, || format!("sqrt = {:?}, reference {:?}", s, r_sqrt(z)));
    cx.chk("(sqrt z)^2 = z", dist(cmul(s, s), z), az, K_FWD, || format!("sqrt = {:?}", s));
    cx.must("Re sqrt z >= 0", s.0 >= -1e-16 * az.sqrt(), || format!("sqrt = {:?}", s));
    let pw = t(zc.pow(&c(w)));
    let pref = r_exp(cmul(w, lnz));
    cx.chk("z^w = exp(w ln z)", dist(pw, pref), cabs(pref) * (1.0 + cabs(w) * (1.0 + cabs(lnz))), K_FWD, || format!("pow = {:?}, reference {:?}", pw, pref));
    let pf = t(zc.powf(w.0));
    let pfref = r_exp(scale(lnz, w.0));
    cx.chk("z^x = exp(x ln z)", dist(pf, pfref), cabs(pfref) * (1.0 + w.0.abs() * (1.0 + cabs(lnz))), K_FWD, || format!("powf = {:?}, reference {:?}", pf, pfref));
    let lb = r_ln(base);
    if cabs(lb) > 1e-3 {
        let lg = t(zc.log(c(base)));
        let lref = cdiv(lnz, lb);
        cx.chk("log_b z = ln z / ln b", dist(lg, lref), (1.0 + cabs(lnz)) / cabs(lb) * (1.0 + 1.0 / cabs(lb)), K_FWD, || format!("log = {:?}, reference {:?}", lg, lref));
    }
    // polar round trip through modulus and argument
    {
        let r = az;
        let th = z.1.atan2(z.0);
        let pz = Cmplx::polar(r, th);
        cx.chk("polar(r,theta).abs() = r", (pz.abs() - r).abs(), r, K_FWD, || format!("polar = {:?}", pz));
        let dth = (pz.arg() - th).abs();
        let dth = dth.min((dth - 2.0 * PI).abs());
        cx.chk("polar(r,theta).arg() = theta", dth, 1.0 + th.abs(), K_FWD, || format!("polar = {:?}", pz));
        cx.chk("polar(|z|, arg z) = z", dist(t(pz), z), az, K_FWD, || format!("polar = {:?}", pz));
    }

    // ---------------- forward trigonometric / hyperbolic vs closed forms and identities
    let (sn, cs, sh, ch) = (t(zc.sin()), t(zc.cos()), t(zc.sinh()), t(zc.cosh()));
    cx.chk("sin vs closed form", dist(sn, r_sin(z)), cabs(r_sin(z)), K_FWD, || format!("sin = {:?}", sn));
    cx.chk("cos vs closed form", dist(cs, r_cos(z)), cabs(r_cos(z)), K_FWD, || format!("cos = {:?}", cs));
    cx.chk("sinh vs closed form", dist(sh, r_sinh(z)), cabs(r_sinh(z)), K_FWD, || format!("sinh = {:?}", sh));
    cx.chk("cosh vs closed form", dist(ch, r_cosh(z)), cabs(r_cosh(z)), K_FWD, || format!("cosh = {:?}", ch));
    // exponential definitions: sin z = (e^{iz} - e^{-iz}) / 2i, cos z = (e^{iz} + e^{-iz}) / 2, likewise sinh/cosh
    {
        let (ep, em) = (r_exp(cmul(I, z)), r_exp(neg(cmul(I, z))));
        let big = cabs(ep) + cabs(em);
        cx.chk("sin vs (e^{iz}-e^{-iz})/2i", dist(sn, cdiv(csub(ep, em), (0.0, 2.0))), big * (1.0 + az), K_FWD, || format!("sin = {:?}", sn));
        cx.chk("cos vs (e^{iz}+e^{-iz})/2", dist(cs, scale(cadd(ep, em), 0.5)), big * (1.0 + az), K_FWD, || format!("cos = {:?}", cs));
        let (ep, em) = (r_exp(z), r_exp(neg(z)));
        let big = cabs(ep) + cabs(em);
        cx.chk("sinh vs (e^z-e^{-z})/2", dist(sh, scale(csub(ep, em), 0.5)), big * (1.0 + az), K_FWD, || format!("sinh = {:?}", sh));
        cx.chk("cosh vs (e^z+e^{-z})/2", dist(ch, scale(cadd(ep, em), 0.5)), big * (1.0 + az), K_FWD, || format!("cosh = {:?}", ch));
    }
    cx.chk("sin^2 + cos^2 = 1", dist(cadd(cmul(sn, sn), cmul(cs, cs)), ONE), cabs(sn).powi(2) + cabs(cs).powi(2), K_FWD, || format!("sin = {:?} cos = {:?}", sn, cs));
    cx.chk("cosh^2 - sinh^2 = 1", dist(csub(cmul(ch, ch), cmul(sh, sh)), ONE), cabs(sh).powi(2) + cabs(ch).powi(2), K_FWD, || format!("sinh = {:?} cosh = {:?}", sh, ch));
    // quotient and reciprocal functions (skip within 1e-6 relative of a pole)
    let mut skipped_pole = false;
    let mut quot = |name: &'static str, got: Cmplx, num: C, den: C, cx: &mut Ctx| {
        if cabs(den) < 1e-6 * (cabs(num) + 1e-300) || cabs(den) < 1e-9 {
            skipped_pole = true;
            return;
        }
        let r = cdiv(num, den);
        cx.chk(name, dist(t(got), r), cabs(r), K_FWD, || format!("got {:?}, reference {:?}", got, r));
    };
    quot("tan = sin/cos", zc.tan(), r_sin(z), r_cos(z), &mut cx);
    quot("sec = 1/cos", zc.sec(), ONE, r_cos(z), &mut cx);
    quot("csc = 1/sin", zc.csc(), ONE, r_sin(z), &mut cx);
    quot("cot = cos/sin", zc.cot(), r_cos(z), r_sin(z), &mut cx);
    quot("tanh = sinh/cosh", zc.tanh(), r_sinh(z), r_cosh(z), &mut cx);
    quot("sech = 1/cosh", zc.sech(), ONE, r_cosh(z), &mut cx);
    quot("csch = 1/sinh", zc.csch(), ONE, r_sinh(z), &mut cx);
    quot("coth = cosh/sinh", zc.coth(), r_cosh(z), r_sinh(z), &mut cx);
    if skipped_pole {
        case.class("skipped: within 1e-6 of a pole");
    }

    // ---------------- inverse functions: right inverse, principal value, ranges
    // amplification of the logarithmic formulas: cancellation in z + sqrt(z^2 +- 1) costs ~|z|^2, the
    // square root next to a branch point costs 1/sqrt(distance)
    let bp = bp_dist(z).max(1e-300);
    let singular = bp < 1e-6 * 1.0; // logarithmic singularities of atan/atanh/acot/acoth at +-i, +-1 and of the 1/z family at 0
    let zi = r_inv(z);
    struct Inv {
        name: &'static str,
        got: C,
        fwd: fn(C) -> C,   // f with f(g(z)) = arg
        arg: C,            // z or 1/z ... what f(g) must reproduce
        refv: fn(C) -> C,  // principal value reference, evaluated at `at`
        at: C,
        log_singular: bool,
    }
    fn f_sec(x: C) -> C { r_inv(r_cos(x)) }
    fn f_csc(x: C) -> C { r_inv(r_sin(x)) }
    fn f_cot(x: C) -> C { r_inv(r_tan(x)) }
    fn f_sech(x: C) -> C { r_inv(r_cosh(x)) }
    fn f_csch(x: C) -> C { r_inv(r_sinh(x)) }
    fn f_coth(x: C) -> C { r_inv(r_tanh(x)) }
    let invs = [
        Inv { name: "asin", got: t(zc.asin()), fwd: r_sin, arg: z, refv: r_asin, at: z, log_singular: false },
        Inv { name: "acos", got: t(zc.acos()), fwd: r_cos, arg: z, refv: r_acos, at: z, log_singular: false },
        Inv { name: "atan", got: t(zc.atan()), fwd: r_tan, arg: z, refv: r_atan, at: z, log_singular: true },
        Inv { name: "asec", got: t(zc.asec()), fwd: f_sec, arg: z, refv: r_acos, at: zi, log_singular: false },
        Inv { name: "acsc", got: t(zc.acsc()), fwd: f_csc, arg: z, refv: r_asin, at: zi, log_singular: false },
        Inv { name: "acot", got: t(zc.acot()), fwd: f_cot, arg: z, refv: r_atan, at: zi, log_singular: true },
        Inv { name: "asinh", got: t(zc.asinh()), fwd: r_sinh, arg: z, refv: r_asinh, at: z, log_singular: false },
        Inv { name: "acosh", got: t(zc.acosh()), fwd: r_cosh, arg: z, refv: r_acosh, at: z, log_singular: false },
        Inv { name: "atanh", got: t(zc.atanh()), fwd: r_tanh, arg: z, refv: r_atanh, at: z, log_singular: true },
        Inv { name: "asech", got: t(zc.asech()), fwd: f_sech, arg: z, refv: r_acosh, at: zi, log_singular: false },
        Inv { name: "acsch", got: t(zc.acsch()), fwd: f_csch, arg: z, refv: r_asinh, at: zi, log_singular: false },
        Inv { name: "acoth", got: t(zc.acoth()), fwd: f_coth, arg: z, refv: r_atanh, at: zi, log_singular: true },
    ];
    let mut skipped_sing = false;
    for iv in invs.iter() {
        if iv.log_singular && singular {
            skipped_sing = true;
            continue;
        }
        if !fin(iv.got) {
            cx.must("inverse function finite", false, || format!("{}(z) = {:?}", iv.name, iv.got));
            continue;
        }
        // error budget of the defining formula at this very argument (absolute, in units of eps)
        let reciprocal = matches!(iv.name, "asec" | "acsc" | "acot" | "asech" | "acsch" | "acoth");
        let base_amp = match iv.name {
            "asin" | "acos" | "asec" | "acsc" => amp_asin_like(iv.at, false),
            "asinh" | "acsch" => amp_asin_like(iv.at, true),
            "acosh" | "asech" => amp_acosh(iv.at),
            "atan" | "acot" => amp_atan_like(iv.at, false),
            _ => amp_atan_like(iv.at, true),
        };
        let amp_inv = base_amp + if reciprocal { cond_of(iv.refv, iv.at) } else { 0.0 } + cabs((iv.refv)(iv.at));
        if !amp_inv.is_finite() {
            skipped_sing = true;
            continue;
        }
        // right inverse through the reference forward function
        let back = (iv.fwd)(iv.got);
        if fin(back) {
            let k_name: &'static str = match iv.name {
                "asin" => "sin(asin z) = z", "acos" => "cos(acos z) = z", "atan" => "tan(atan z) = z", "asec" => "sec(asec z) = z", "acsc" => "csc(acsc z) = z", "acot" => "cot(acot z) = z",
                "asinh" => "sinh(asinh z) = z", "acosh" => "cosh(acosh z) = z", "atanh" => "tanh(atanh z) = z", "asech" => "sech(asech z) = z", "acsch" => "csch(acsch z) = z", _ => "coth(acoth z) = z",
            };
            // |f'(g)| by a difference quotient of the reference forward function
            let hstep = 1e-6 * (1.0 + cabs(iv.got));
            let fprime = dist((iv.fwd)((iv.got.0 + hstep, iv.got.1)), back) / hstep;
            if fprime.is_finite() {
                cx.chk(k_name, dist(back, iv.arg), fprime * amp_inv + cabs(iv.arg) * (1.0 + fprime), K_INV, || format!("{}(z) = {:?}, mapped back to {:?}", iv.name, iv.got, back));
            }
        }
        // principal value (not compared exactly on a cut, where only the signed-zero convention decides)
        let on_cut = p.on_axis && near_cut_discontinuity(iv.refv, iv.at);
        if !on_cut {
            let r = (iv.refv)(iv.at);
            let k_name: &'static str = match iv.name {
                "asin" => "asin principal value", "acos" => "acos principal value", "atan" => "atan principal value", "asec" => "asec principal value", "acsc" => "acsc principal value", "acot" => "acot principal value",
                "asinh" => "asinh principal value", "acosh" => "acosh principal value", "atanh" => "atanh principal value", "asech" => "asech principal value", "acsch" => "acsch principal value", _ => "acoth principal value",
            };
            cx.chk(k_name, dist(iv.got, r), amp_inv, K_INV, || format!("{}(z) = {:?}, Kahan-style principal value {:?}", iv.name, iv.got, r));
        }
    }
    if skipped_sing {
        case.class("skipped: within 1e-6 of a logarithmic singularity");
    }
    let asn = t(zc.asin());
    let acs = t(zc.acos());
    cx.must("Re asin z in [-pi/2, pi/2]", asn.0 >= -FRAC_PI_2 - 1e-12 && asn.0 <= FRAC_PI_2 + 1e-12, || format!("asin = {:?}", asn));
    cx.must("Re acos z in [0, pi]", acs.0 >= -1e-12 && acs.0 <= PI + 1e-12, || format!("acos = {:?}", acs));
    cx.chk("asin z + acos z = pi/2", dist(cadd(asn, acs), (FRAC_PI_2, 0.0)), 1.0 + cabs(asn), K_FWD, || format!("asin = {:?} acos = {:?}", asn, acs));

    // ---------------- reduction to the real functions on the real axis
    if z.1 == 0.0 && p.on_axis {
        let x = z.0;
        let real = |name: &'static str, got: Cmplx, exp: f64, k: f64, cx: &mut Ctx| {
            cx.chk(name, dist(t(got), (exp, 0.0)), 1.0 + exp.abs(), k, || format!("got {:?}, real function gives {:e}", got, exp));
        };
        real("exp on the real axis", zc.exp(), x.exp(), K_FWD, &mut cx);
        real("sin on the real axis", zc.sin(), x.sin(), K_FWD, &mut cx);
        real("cos on the real axis", zc.cos(), x.cos(), K_FWD, &mut cx);
        real("sinh on the real axis", zc.sinh(), x.sinh(), K_FWD, &mut cx);
        real("cosh on the real axis", zc.cosh(), x.cosh(), K_FWD, &mut cx);
        if x.cos().abs() > 1e-6 {
            real("tan on the real axis", zc.tan(), x.tan(), K_FWD * (1.0 + x.tan().abs()), &mut cx);
        }
        real("tanh on the real axis", zc.tanh(), x.tanh(), K_FWD, &mut cx);
        real("atan on the real axis", zc.atan(), x.atan(), K_INV, &mut cx);
        real("asinh on the real axis", zc.asinh(), x.asinh(), K_INV * (1.0 + x * x), &mut cx);
        if x > 0.0 {
            real("ln on the positive real axis", zc.ln(), x.ln(), K_FWD, &mut cx);
            real("sqrt on the positive real axis", zc.sqrt(), x.sqrt(), K_FWD, &mut cx);
            real("powf on the positive real axis", zc.powf(w.0), x.powf(w.0), K_FWD * (1.0 + (w.0 * x.ln()).abs()), &mut cx);
        }
        if x.abs() <= 1.0 {
            let a = 1.0 + 1.0 / (1.0 - x.abs()).max(1e-300).sqrt();
            real("asin on [-1,1]", zc.asin(), x.asin(), K_INV * a, &mut cx);
            real("acos on [-1,1]", zc.acos(), x.acos(), K_INV * a, &mut cx);
            if x.abs() < 1.0 - 1e-6 {
                real("atanh on (-1,1)", zc.atanh(), x.atanh(), K_INV * a * a, &mut cx);
            }
        }
        if x >= 1.0 {
            real("acosh on [1,inf)", zc.acosh(), x.acosh(), K_INV * (1.0 + 1.0 / (x - 1.0).max(1e-300).sqrt()), &mut cx);
        }
    }
    let worst = cx.worst.take();
    if crate::calib::on() {
        for (name, ratio) in notes {
            crate::calib::note(name, ratio, || format!("z=({:e},{:e}) {}", z.0, z.1, p.region));
        }
    }
    match worst {
        None => Ok(Outcome::Pass),
        Some(m) => Err(m),
    }
}

impl Prop for C14 {
    fn id(&self) -> &'static str {
        "C14"
    }
    fn rule(&self) -> String {
        "points z with |z| log-uniform in [1e-3, 10]: 3/8 uniform angle, 1/8 exactly on one of the four half-axes (other component +0.0), 2/8 within 1e-12..1e-6 of an axis on either side (both sides of every branch cut), \
         2/8 within 1e-9..1e-1 of a branch point +-1, +-i; exponents w real or complex with |w| <= 3, one quarter of them exact special values (0, 1, 2, -1, 1/2, 3, i, ...); bases for log; 1/32 of the points are exact special points (+-1, +-i, +-1/2, +-2, 1+-i, e, 10). All public functions are evaluated at every point: exp, ln, sqrt, pow, powf, log, polar; sin, cos, tan, sec, csc, cot and their \
         inverses; sinh, cosh, tanh, sech, csch, coth and their inverses. Oracles: reference formulas coded differently (Smith division, hypot, Kahan square root, ln via ln(hypot)/atan2, closed forms, exponential definitions), \
         Pythagorean identities, reciprocals, z^w = exp(w ln z), polar round trip, each inverse g of f: f_ref(g(z)) = z and agreement with the Kahan-style principal value (not compared exactly on a cut), principal ranges of sqrt/ln/asin/acos, asin+acos = pi/2, \
         reduction to the real std functions on the real axis. Tolerance K*eps*amplification, K = 400 forward; K = 100 for the inverse functions, whose amplification is computed at the actual argument from the defining logarithmic formula (cancellation inside the logarithm, conditioning of the square root next to its branch point, conditioning of 1/z for the reciprocal-argument functions) - worst observed ratio on the pinned tree < 1.0 for all 24 inverse checks; points within 1e-6 of a pole or logarithmic singularity are skipped and counted. \
         Non-trivial: z outside the open first quadrant, or within 1e-3 of an axis (relative) or of a branch point. distinct = distinct decoded choice sequence."
            .into()
    }
    fn assumptions(&self) -> Vec<String> {
        vec![
            "signed-zero conventions exactly on a branch cut are not asserted (the library documents none)".into(),
            "tolerance constants calibrated on the pinned tree with >= 100x head-room".into(),
        ]
    }
    fn stream_len(&self, _tier: Tier) -> usize {
        32
    }
    fn random_cases(&self, tier: Tier) -> usize {
        tier.pick(600_000, 20_000_000)
    }
    fn run(&self, case: &mut Case) -> Outcome {
        match run(case) {
            Ok(o) => o,
            Err(m) => Outcome::Fail(m),
        }
    }
}
