//! C19 — meshes return what was stored; interpolation / quadrature exact on (bi)linear data.

use crate::dd::Dd;
use crate::engine::{Case, Outcome, Prop, Tier};
use crate::stream::Src;
use ohsl::{Mesh1D, Mesh2D, Vector};
use std::sync::atomic::{AtomicUsize, Ordering};

pub struct C19;

/// increasing non-uniform dyadic grid: spacings are multiples of 2^-9 >= 2^-9 (> 1e-3)
fn gen_grid(src: &mut Src, n: usize) -> (Vec<f64>, bool) {
    // origin: near zero, or far from it (2^10 .. 2^20; the spacings stay exactly representable)
    let mut x = match src.below(4) {
        0 => (src.small_int(64) as f64 / 8.0) + 2f64.powi(10 + src.below(11) as i32) * if src.coin() { 1.0 } else { -1.0 },
        _ => src.small_int(64) as f64 / 8.0,
    };
    let mut g = vec![x];
    let uniform = src.below(5) == 0;
    let h0 = (1 + src.below(2048)) as f64 / 512.0;
    for _ in 1..n {
        // non-uniform grids: one spacing in six is wide (times 2^4 .. 2^12, up to 16384): a tolerance or window that
        // scales with the cell width then covers points the property places outside it
        let wide = if !uniform && src.below(6) == 0 { 2f64.powi(4 + src.below(9) as i32) } else { 1.0 };
        let h = if uniform { h0 } else { wide * (1 + src.below(2048)) as f64 / 512.0 };
        x += h;
        g.push(x);
    }
    let nonuniform = n >= 3 && (1..n - 1).any(|i| (g[i + 1] - g[i]) != (g[i] - g[i - 1]));
    (g, nonuniform)
}

fn scratch_file() -> String {
    static N: AtomicUsize = AtomicUsize::new(0);
    let dir = std::env::temp_dir().join(format!("ohsl-verif-{}", std::process::id()));
    let _ = std::fs::create_dir_all(&dir);
    dir.join(format!("mesh-{}.dat", N.fetch_add(1, Ordering::Relaxed))).to_string_lossy().into_owned()
}
pub fn cleanup_scratch() {
    let dir = std::env::temp_dir().join(format!("ohsl-verif-{}", std::process::id()));
    let _ = std::fs::remove_dir_all(dir);
}

fn rel_close(a: f64, b: f64, scale: f64) -> bool {
    (a - b).abs() <= 1e-12 * (scale.abs() + a.abs().max(b.abs())) + 1e-300
}

fn mesh1d(case: &mut Case) -> Result<(), String> {
    let n = case.src.urange(2, 12);
    let nv = case.src.urange(1, 4);
    let (grid, nonuniform) = gen_grid(&mut case.src, n);
    let mut mesh = Mesh1D::<f64, f64>::new(Vector::create(grid.clone()), nv);
    let mut model = vec![vec![0.0f64; nv]; n];
    case.class(format!("1-D {}", if nonuniform { "non-uniform" } else { "uniform/short" }));
    if nonuniform && n >= 3 {
        case.mark_nontrivial();
    }
    // linear data in variable 0 half of the time (closed-form quadrature)
    let linear = case.src.coin();
    let (la, lb) = (case.src.small_int(20) as f64, case.src.small_int(16) as f64);
    let writes = case.src.urange(1, 30);
    let mut log = Vec::new();
    for _ in 0..writes {
        let node = case.src.usize_below(n);
        match case.src.below(3) {
            0 => {
                let v: Vec<f64> = (0..nv).map(|_| case.src.small_int(50) as f64).collect();
                mesh.set_nodes_vars(node, Vector::create(v.clone()));
                log.push(format!("set_nodes_vars({},{:?})", node, v));
                model[node] = v;
            }
            1 => {
                let var = case.src.usize_below(nv);
                let v = case.src.small_int(50) as f64;
                mesh[node][var] = v;
                model[node][var] = v;
                log.push(format!("[{}][{}]={}", node, var, v));
            }
            _ => {
                let v = case.src.small_int(50) as f64;
                let var = case.src.usize_below(nv);
                mesh[node][var] += v;
                model[node][var] += v;
                log.push(format!("[{}][{}]+={}", node, var, v));
            }
        }
    }
    if linear {
        for i in 0..n {
            let v = la + lb * grid[i];
            mesh[i][0] = v;
            model[i][0] = v;
        }
        log.push(format!("var 0 := {} + {} x", la, lb));
    }
    case.describe(|| format!("Mesh1D nodes={:?} nvars={} writes=[{}]", grid, nv, log.join("; ")));
    // ---- everything stored comes back through every access path
    if mesh.nnodes() != n || mesh.nvars() != nv {
        return Err(format!("nnodes/nvars = {}/{}", mesh.nnodes(), mesh.nvars()));
    }
    if mesh.nodes().vec != grid {
        return Err(format!("nodes() = {:?}", mesh.nodes().vec));
    }
    for i in 0..n {
        if mesh.coord(i) != grid[i] {
            return Err(format!("coord({}) = {}", i, mesh.coord(i)));
        }
        if mesh.get_nodes_vars(i).vec != model[i] || mesh[i].vec != model[i] {
            return Err(format!("node {}: get_nodes_vars = {:?}, index = {:?}, stored {:?}", i, mesh.get_nodes_vars(i).vec, mesh[i].vec, model[i]));
        }
    }
    // ---- interpolation
    let scale = model.iter().flatten().fold(1.0f64, |a, b| a.max(b.abs()));
    for i in 0..n {
        let got = mesh.get_interpolated_vars(grid[i]).vec;
        for v in 0..nv {
            if !rel_close(got[v], model[i][v], scale) {
                return Err(format!("interpolation at node {} (x = {}): variable {} = {:e}, nodal value {:e}", i, grid[i], v, got[v], model[i][v]));
            }
        }
    }
    for i in 0..n - 1 {
        let h = grid[i + 1] - grid[i];
        // mid-point, two random interior points, and points just inside the cell next to either node
        // (2e-6 .. 1e-4 away: outside the 1e-6 exclusion zone, close enough to expose a widened snapping window)
        let near = 10f64.powf(case.src.f64_in(-5.7, -4.0));
        let pts = [0.5, case.src.f64_in(0.001, 0.999), case.src.f64_in(0.001, 0.999), near / h, 1.0 - near / h];
        for t in pts {
            if !(t > 0.0 && t < 1.0) {
                continue;
            }
            let x = grid[i] + t * h;
            if (x - grid[i]).abs() < 1e-6 || (grid[i + 1] - x).abs() < 1e-6 {
                continue;
            }
            let got = mesh.get_interpolated_vars(x).vec;
            if got.len() != nv {
                return Err("interpolated vector has the wrong length".into());
            }
            for v in 0..nv {
                let (l, r) = (model[i][v], model[i + 1][v]);
                let e = (Dd::from(l) + (Dd::from(r) - Dd::from(l)) * (Dd::from(x) - Dd::from(grid[i])).div(Dd::from(h))).to_f64();
                if !rel_close(got[v], e, scale) {
                    return Err(format!("interpolation at x = {:e} in cell {} ([{}, {}]): variable {} = {:e}, linear interpolant {:e}", x, i, grid[i], grid[i + 1], v, got[v], e));
                }
            }
        }
    }
    // ---- trapezium quadrature
    for v in 0..nv {
        let mut s = Dd::ZERO;
        let mut mag = 0.0;
        for i in 0..n - 1 {
            let h = grid[i + 1] - grid[i];
            s = s + Dd::from(0.5 * h) * (Dd::from(model[i][v]) + Dd::from(model[i + 1][v]));
            mag += (0.5 * h * (model[i][v].abs() + model[i + 1][v].abs())).abs();
        }
        let got = mesh.trapezium(v);
        if !((got - s.to_f64()).abs() <= 1e-12 * (mag + 1.0)) {
            return Err(format!("trapezium({}) = {:e}, sum of cell contributions {:e}", v, got, s.to_f64()));
        }
    }
    if linear {
        let (a, b) = (grid[0], grid[n - 1]);
        let exact = (Dd::from(la) * (Dd::from(b) - Dd::from(a)) + Dd::from(lb * 0.5) * (Dd::prod(b, b) - Dd::prod(a, a))).to_f64();
        let got = mesh.trapezium(0);
        let mag = la.abs() * (b - a) + lb.abs() * (b * b + a * a);
        if !((got - exact).abs() <= 1e-12 * (mag + 1.0)) {
            return Err(format!("trapezium of the linear integrand {} + {} x over [{}, {}] = {:e}, exact {:e}", la, lb, a, b, got, exact));
        }
        case.class("1-D linear integrand");
    }
    // ---- queries interleaved with writes: an answer must reflect the data as they are *now* (an implementation may
    //      cache the last cell, its slope, cell widths, partial sums ...), through every write path
    let steps = case.src.urange(4, 24);
    let mut last_cell = case.src.usize_below(n - 1);
    for step in 0..steps {
        match case.src.below(6) {
            0 | 1 => {
                // interpolate: usually in the cell used last, sometimes elsewhere
                let i = if case.src.below(3) == 0 { case.src.usize_below(n - 1) } else { last_cell };
                last_cell = i;
                let h = grid[i + 1] - grid[i];
                let x = grid[i] + case.src.f64_in(0.05, 0.95) * h;
                if (x - grid[i]).abs() < 1e-6 || (grid[i + 1] - x).abs() < 1e-6 {
                    continue;
                }
                let got = mesh.get_interpolated_vars(x).vec;
                let scale = model.iter().flatten().fold(1.0f64, |a, b| a.max(b.abs()));
                for v in 0..nv {
                    let (l, r) = (model[i][v], model[i + 1][v]);
                    let e = (Dd::from(l) + (Dd::from(r) - Dd::from(l)) * (Dd::from(x) - Dd::from(grid[i])).div(Dd::from(h))).to_f64();
                    if !rel_close(got[v], e, scale) {
                        return Err(format!("interleaved step {}: interpolation at x = {:e} in cell {} gives variable {} = {:e}, the data now stored give {:e} (nodal values {:e}, {:e})", step, x, i, v, got[v], e, l, r));
                    }
                }
            }
            2 => {
                // write an end point of the cell used last through the index operator
                let node = last_cell + case.src.usize_below(2);
                let var = case.src.usize_below(nv);
                let v = case.src.small_int(50) as f64;
                if case.src.coin() {
                    mesh[node][var] = v;
                    model[node][var] = v;
                } else {
                    mesh[node][var] -= v;
                    model[node][var] -= v;
                }
            }
            3 => {
                let node = if case.src.coin() { last_cell + case.src.usize_below(2) } else { case.src.usize_below(n) };
                let v: Vec<f64> = (0..nv).map(|_| case.src.small_int(50) as f64).collect();
                mesh.set_nodes_vars(node, Vector::create(v.clone()));
                model[node] = v;
            }
            4 => {
                let v = case.src.usize_below(nv);
                let mut sdd = Dd::ZERO;
                let mut mag = 0.0;
                for i in 0..n - 1 {
                    let h = grid[i + 1] - grid[i];
                    sdd = sdd + Dd::from(0.5 * h) * (Dd::from(model[i][v]) + Dd::from(model[i + 1][v]));
                    mag += (0.5 * h * (model[i][v].abs() + model[i + 1][v].abs())).abs();
                }
                let got = mesh.trapezium(v);
                if !((got - sdd.to_f64()).abs() <= 1e-12 * (mag + 1.0)) {
                    return Err(format!("interleaved step {}: trapezium({}) = {:e}, the data now stored give {:e}", step, v, got, sdd.to_f64()));
                }
            }
            _ => {
                // asking twice gives the same answer (a query must not disturb the state)
                let i = last_cell;
                let x = grid[i] + 0.5 * (grid[i + 1] - grid[i]);
                if (x - grid[i]).abs() >= 1e-6 && (grid[i + 1] - x).abs() >= 1e-6 {
                    let (a, b) = (mesh.get_interpolated_vars(x).vec, mesh.get_interpolated_vars(x).vec);
                    if a != b {
                        return Err(format!("interleaved step {}: two consecutive interpolations at x = {:e} give {:?} and {:?}", step, x, a, b));
                    }
                }
            }
        }
    }
    case.class("1-D queries interleaved with writes");
    for i in 0..n {
        if mesh[i].vec != model[i] {
            return Err(format!("after the interleaved history node {} holds {:?}, model {:?}", i, mesh[i].vec, model[i]));
        }
    }
    let scale = model.iter().flatten().fold(1.0f64, |a, b| a.max(b.abs()));
    // ---- output -> read round trip
    let prec = case.src.urange(3, 12);
    let file = scratch_file();
    // the path may already hold a longer file written by another mesh (output must replace it, not overwrite its head)
    let pre_existing = case.src.coin();
    if pre_existing {
        let big = Mesh1D::<f64, f64>::new(Vector::<f64>::linspace(-7.0, 9.0, n + 5), nv + 1);
        big.output(&file, 12);
        case.class("1-D output over an existing longer file");
    }
    mesh.output(&file, prec);
    // the receiving mesh had 2..=16 nodes before (fewer or more than the file) and non-zero data
    let old_n = case.src.urange(2, 16);
    let mut back = Mesh1D::<f64, f64>::new(Vector::<f64>::linspace(-3.0, 5.0, old_n), nv);
    for i in 0..old_n {
        for v in 0..nv {
            back[i][v] = 100.0 + i as f64;
        }
    }
    // the receiving mesh has been queried before (a search hint or cache may point into the old grid)
    if case.src.coin() {
        let xq = -3.0 + 8.0 * case.src.f64_in(0.55, 0.999);
        let _ = back.get_interpolated_vars(xq);
        let _ = back.trapezium(0);
        case.class("1-D read() into a mesh that was interpolated before");
    }
    back.read(&file);
    let _ = std::fs::remove_file(&file);
    if back.nnodes() != n || back.nvars() != nv {
        return Err(format!("read(): {} nodes / {} vars, expected {} / {}", back.nnodes(), back.nvars(), n, nv));
    }
    let gmax = grid.iter().fold(0.0f64, |a, b| a.max(b.abs()));
    let tol = 0.5 * 10f64.powi(-(prec as i32)) * (1.0 + 1e-9) + 1e-13 * scale.max(100.0).max(gmax);
    for i in 0..n {
        if !((back.coord(i) - grid[i]).abs() <= tol) {
            return Err(format!("read(): node {} = {:e}, written {:e} (precision {})", i, back.coord(i), grid[i], prec));
        }
        for v in 0..nv {
            if !((back[i][v] - model[i][v]).abs() <= tol) {
                return Err(format!("read(): variable {} at node {} = {:e}, written {:e} (precision {})", v, i, back[i][v], model[i][v], prec));
            }
        }
    }
    // the mesh read back is a fully functional mesh: every access path and the quadrature agree with its own data
    if back.nodes().vec.len() != n {
        return Err(format!("read(): nodes() has {} entries for {} nodes", back.nodes().vec.len(), n));
    }
    for i in 0..n {
        if back.get_nodes_vars(i).vec != back[i].vec || back[i].vec.len() != nv {
            return Err(format!("read(): node {} differs between get_nodes_vars and the index operator", i));
        }
    }
    if std::panic::catch_unwind(std::panic::AssertUnwindSafe(|| back[n].size())).is_ok() && old_n <= n {
        // (when the mesh shrank the index operator past the end is judged by C20)
        return Err(format!("read(): node {} is addressable although the mesh has {} nodes", n, n));
    }
    for v in 0..nv {
        let mut sdd = Dd::ZERO;
        let mut mag = 0.0;
        for i in 0..n - 1 {
            let h = back.coord(i + 1) - back.coord(i);
            sdd = sdd + Dd::from(0.5 * h) * (Dd::from(back[i][v]) + Dd::from(back[i + 1][v]));
            mag += (0.5 * h * (back[i][v].abs() + back[i + 1][v].abs())).abs();
        }
        let got = match crate::engine::catch(|| back.trapezium(v)) {
            Ok(g) => g,
            Err(e) => return Err(format!("trapezium({}) on a mesh read from a file with {} nodes (it had {} before) panicked: {}", v, n, old_n, e)),
        };
        if !((got - sdd.to_f64()).abs() <= 1e-12 * (mag + 1.0)) {
            return Err(format!("after read(): trapezium({}) = {:e}, sum of cell contributions {:e}", v, got, sdd.to_f64()));
        }
    }
    let mid = 0.5 * (back.coord(0) + back.coord(1));
    let iv = match crate::engine::catch(|| back.get_interpolated_vars(mid)) {
        Ok(g) => g.vec,
        Err(e) => return Err(format!("interpolation on a mesh read from a file panicked: {}", e)),
    };
    for v in 0..nv {
        let (l, r) = (back[0][v], back[1][v]);
        let e = (Dd::from(l) + (Dd::from(r) - Dd::from(l)) * (Dd::from(mid) - Dd::from(back.coord(0))).div(Dd::from(back.coord(1)) - Dd::from(back.coord(0)))).to_f64();
        if !rel_close(iv[v], e, scale) {
            return Err(format!("after read(): interpolation at the first mid-cell gives {:e}, expected {:e}", iv[v], e));
        }
    }
    Ok(())
}

fn mesh2d(case: &mut Case) -> Result<(), String> {
    let nx = case.src.urange(2, 12);
    let ny = case.src.urange(2, 12);
    let nv = case.src.urange(1, 4);
    let (gx, nux) = gen_grid(&mut case.src, nx);
    let (gy, nuy) = gen_grid(&mut case.src, ny);
    let mut mesh = Mesh2D::<f64>::new(Vector::create(gx.clone()), Vector::create(gy.clone()), nv);
    let mut model = vec![vec![vec![0.0f64; nv]; ny]; nx];
    case.class(format!("2-D {} {}", if nux && nuy { "non-uniform" } else { "uniform/short" }, if nx != ny { "nx!=ny" } else { "nx==ny" }));
    if nux && nuy && nx >= 3 && ny >= 3 && nx != ny {
        case.mark_nontrivial();
    }
    let writes = case.src.urange(1, 30);
    let mut log = Vec::new();
    let (ba, bb, bc, bd) = (case.src.small_int(9) as f64, case.src.small_int(6) as f64, case.src.small_int(6) as f64, case.src.small_int(4) as f64);
    for _ in 0..writes {
        let (i, j) = (case.src.usize_below(nx), case.src.usize_below(ny));
        match case.src.below(8) {
            0 | 1 | 2 => {
                let v: Vec<f64> = (0..nv).map(|_| case.src.small_int(50) as f64).collect();
                mesh.set_nodes_vars(i, j, Vector::create(v.clone()));
                log.push(format!("set_nodes_vars({},{},{:?})", i, j, v));
                model[i][j] = v;
            }
            3 | 4 | 5 => {
                let var = case.src.usize_below(nv);
                let v = case.src.small_int(50) as f64;
                mesh[(i, j)][var] = v;
                model[i][j][var] = v;
                log.push(format!("[({},{})][{}]={}", i, j, var, v));
            }
            6 => {
                // apply a bilinear function to one variable
                let var = case.src.usize_below(nv);
                mesh.apply(&|x, y| ba + bb * x + bc * y + bd * x * y, var);
                for p in 0..nx {
                    for q in 0..ny {
                        model[p][q][var] = ba + bb * gx[p] + bc * gy[q] + bd * gx[p] * gy[q];
                    }
                }
                log.push(format!("apply(bilinear, {})", var));
            }
            _ => {
                if case.src.below(4) == 0 {
                    let v = case.src.small_int(9) as f64;
                    mesh.assign(v);
                    for p in model.iter_mut().flatten().flatten() {
                        *p = v;
                    }
                    log.push(format!("assign({})", v));
                }
            }
        }
    }
    let bilinear = case.src.coin();
    if bilinear {
        mesh.apply(&|x, y| ba + bb * x + bc * y + bd * x * y, 0);
        for p in 0..nx {
            for q in 0..ny {
                model[p][q][0] = ba + bb * gx[p] + bc * gy[q] + bd * gx[p] * gy[q];
            }
        }
        log.push("apply(bilinear, 0)".into());
    }
    case.describe(|| format!("Mesh2D x={:?} y={:?} nvars={} writes=[{}] bilinear=({},{},{},{})", gx, gy, nv, log.join("; "), ba, bb, bc, bd));
    if mesh.nnodes() != (nx, ny) || mesh.nvars() != nv {
        return Err(format!("nnodes/nvars = {:?}/{}", mesh.nnodes(), mesh.nvars()));
    }
    if mesh.xnodes().vec != gx || mesh.ynodes().vec != gy {
        return Err("xnodes()/ynodes() differ from the construction data".into());
    }
    for i in 0..nx {
        for j in 0..ny {
            if mesh.coord(i, j) != (gx[i], gy[j]) {
                return Err(format!("coord({},{}) = {:?}", i, j, mesh.coord(i, j)));
            }
            if mesh.get_nodes_vars(i, j).vec != model[i][j] || mesh[(i, j)].vec != model[i][j] {
                return Err(format!("node ({},{}): get_nodes_vars = {:?}, index = {:?}, stored {:?}", i, j, mesh.get_nodes_vars(i, j).vec, mesh[(i, j)].vec, model[i][j]));
            }
        }
    }
    // cross-sections
    let i0 = case.src.usize_below(nx);
    let sx = mesh.cross_section_xnode(i0);
    if sx.nnodes() != ny || sx.nvars() != nv || sx.nodes().vec != gy {
        return Err(format!("cross_section_xnode({}): {} nodes, {} vars, nodes {:?}", i0, sx.nnodes(), sx.nvars(), sx.nodes().vec));
    }
    for j in 0..ny {
        if sx.get_nodes_vars(j).vec != model[i0][j] {
            return Err(format!("cross_section_xnode({}) node {} = {:?}, stored {:?}", i0, j, sx.get_nodes_vars(j).vec, model[i0][j]));
        }
    }
    let j0 = case.src.usize_below(ny);
    let sy = mesh.cross_section_ynode(j0);
    if sy.nnodes() != nx || sy.nvars() != nv || sy.nodes().vec != gx {
        return Err(format!("cross_section_ynode({}): {} nodes, {} vars, nodes {:?}", j0, sy.nnodes(), sy.nvars(), sy.nodes().vec));
    }
    for i in 0..nx {
        if sy.get_nodes_vars(i).vec != model[i][j0] {
            return Err(format!("cross_section_ynode({}) node {} = {:?}, stored {:?}", j0, i, sy.get_nodes_vars(i).vec, model[i][j0]));
        }
    }
    // variable as matrix
    for v in 0..nv {
        let m = mesh.var_as_matrix(v);
        if m.rows() != nx || m.cols() != ny {
            return Err(format!("var_as_matrix({}) has shape {}x{}, expected {}x{}", v, m.rows(), m.cols(), nx, ny));
        }
        for i in 0..nx {
            for j in 0..ny {
                if m[(i, j)] != model[i][j][v] {
                    return Err(format!("var_as_matrix({})[({},{})] = {}, stored {}", v, i, j, m[(i, j)], model[i][j][v]));
                }
            }
        }
    }
    // quadrature
    for v in 0..nv {
        let (mut s, mut s2) = (Dd::ZERO, Dd::ZERO);
        let (mut mag, mut mag2) = (0.0, 0.0);
        for i in 0..nx - 1 {
            let dx = gx[i + 1] - gx[i];
            for j in 0..ny - 1 {
                let dy = gy[j + 1] - gy[j];
                let c = [model[i][j][v], model[i + 1][j][v], model[i][j + 1][v], model[i + 1][j + 1][v]];
                let w = Dd::prod(0.25 * dx, dy);
                let mut t = Dd::ZERO;
                let mut t2 = Dd::ZERO;
                for q in c {
                    t = t + Dd::from(q);
                    t2 = t2 + Dd::prod(q, q);
                    mag += 0.25 * dx * dy * q.abs();
                    mag2 += 0.25 * dx * dy * q * q;
                }
                s = s + w * t;
                s2 = s2 + w * t2;
            }
        }
        let got = mesh.trapezium(v);
        if !((got - s.to_f64()).abs() <= 1e-12 * (mag + 1.0)) {
            return Err(format!("trapezium({}) = {:e}, sum of cell contributions {:e}", v, got, s.to_f64()));
        }
        let got2 = mesh.square_trapezium(v);
        if !((got2 - s2.to_f64()).abs() <= 1e-12 * (mag2 + 1.0)) {
            return Err(format!("square_trapezium({}) = {:e}, sum of cell contributions {:e}", v, got2, s2.to_f64()));
        }
    }
    if bilinear {
        let (x0, x1, y0, y1) = (gx[0], gx[nx - 1], gy[0], gy[ny - 1]);
        let (lx, ly) = (Dd::from(x1) - Dd::from(x0), Dd::from(y1) - Dd::from(y0));
        let (qx, qy) = ((Dd::prod(x1, x1) - Dd::prod(x0, x0)) * Dd::from(0.5), (Dd::prod(y1, y1) - Dd::prod(y0, y0)) * Dd::from(0.5));
        let exact = (Dd::from(ba) * lx * ly + Dd::from(bb) * qx * ly + Dd::from(bc) * lx * qy + Dd::from(bd) * qx * qy).to_f64();
        let mag = (ba.abs() + bb.abs() * x1.abs().max(x0.abs()) + bc.abs() * y1.abs().max(y0.abs()) + bd.abs() * (x1.abs().max(x0.abs()) * y1.abs().max(y0.abs()))) * lx.to_f64() * ly.to_f64();
        let got = mesh.trapezium(0);
        if !((got - exact).abs() <= 1e-11 * (mag + 1.0)) {
            return Err(format!("trapezium of the bilinear integrand = {:e}, exact {:e}", got, exact));
        }
        case.class("2-D bilinear integrand");
    }
    // ---- queries interleaved with writes: every answer reflects the data as they are now (no stale cached sums,
    //      matrices or cross-sections), whichever write path was used
    let quad = |model: &Vec<Vec<Vec<f64>>>, v: usize| -> (f64, f64, f64, f64) {
        let (mut s, mut s2) = (Dd::ZERO, Dd::ZERO);
        let (mut mag, mut mag2) = (0.0, 0.0);
        for i in 0..nx - 1 {
            let dx = gx[i + 1] - gx[i];
            for j in 0..ny - 1 {
                let dy = gy[j + 1] - gy[j];
                let w = Dd::prod(0.25 * dx, dy);
                let (mut t, mut t2) = (Dd::ZERO, Dd::ZERO);
                for q in [model[i][j][v], model[i + 1][j][v], model[i][j + 1][v], model[i + 1][j + 1][v]] {
                    t = t + Dd::from(q);
                    t2 = t2 + Dd::prod(q, q);
                    mag += 0.25 * dx * dy * q.abs();
                    mag2 += 0.25 * dx * dy * q * q;
                }
                s = s + w * t;
                s2 = s2 + w * t2;
            }
        }
        (s.to_f64(), s2.to_f64(), mag, mag2)
    };
    let steps = case.src.urange(3, 16);
    for step in 0..steps {
        let (i, j) = (case.src.usize_below(nx), case.src.usize_below(ny));
        match case.src.below(7) {
            0 | 1 => {
                let var = case.src.usize_below(nv);
                let v = case.src.small_int(50) as f64;
                if case.src.coin() {
                    mesh[(i, j)][var] = v;
                    model[i][j][var] = v;
                } else {
                    mesh[(i, j)][var] += v;
                    model[i][j][var] += v;
                }
            }
            2 => {
                let v: Vec<f64> = (0..nv).map(|_| case.src.small_int(50) as f64).collect();
                mesh.set_nodes_vars(i, j, Vector::create(v.clone()));
                model[i][j] = v;
            }
            3 => {
                let v = case.src.usize_below(nv);
                let (e, e2, mag, mag2) = quad(&model, v);
                let (got, got2) = (mesh.trapezium(v), mesh.square_trapezium(v));
                if !((got - e).abs() <= 1e-12 * (mag + 1.0)) || !((got2 - e2).abs() <= 1e-12 * (mag2 + 1.0)) {
                    return Err(format!("interleaved step {}: trapezium({}) = {:e} / square_trapezium = {:e}, the data now stored give {:e} / {:e}", step, v, got, got2, e, e2));
                }
            }
            4 => {
                let v = case.src.usize_below(nv);
                let m = mesh.var_as_matrix(v);
                if m[(i, j)] != model[i][j][v] || m.rows() != nx || m.cols() != ny {
                    return Err(format!("interleaved step {}: var_as_matrix({})[({},{})] = {}, the data now stored give {}", step, v, i, j, m[(i, j)], model[i][j][v]));
                }
            }
            5 => {
                let sx = mesh.cross_section_xnode(i);
                let sy = mesh.cross_section_ynode(j);
                if sx.get_nodes_vars(j).vec != model[i][j] || sy.get_nodes_vars(i).vec != model[i][j] || mesh.get_nodes_vars(i, j).vec != model[i][j] {
                    return Err(format!("interleaved step {}: cross-sections through node ({},{}) give {:?} / {:?}, stored {:?}", step, i, j, sx.get_nodes_vars(j).vec, sy.get_nodes_vars(i).vec, model[i][j]));
                }
            }
            _ => {
                if case.src.below(3) == 0 {
                    let var = case.src.usize_below(nv);
                    mesh.apply(&|x, y| bc + ba * x - bb * y, var);
                    for p in 0..nx {
                        for q in 0..ny {
                            model[p][q][var] = bc + ba * gx[p] - bb * gy[q];
                        }
                    }
                }
            }
        }
    }
    case.class("2-D queries interleaved with writes");
    for i in 0..nx {
        for j in 0..ny {
            if mesh[(i, j)].vec != model[i][j] {
                return Err(format!("after the interleaved history node ({},{}) holds {:?}, model {:?}", i, j, mesh[(i, j)].vec, model[i][j]));
            }
        }
    }
    Ok(())
}

impl Prop for C19 {
    fn id(&self) -> &'static str {
        "C19"
    }
    fn rule(&self) -> String {
        "1-D (1/2) and 2-D (1/2) meshes with 2..=12 nodes per direction on increasing dyadic grids (spacings random multiples of 2^-9 up to 4, one in six of them 2^4..2^12 times wider, uniform with probability 1/5; origin near 0 or, with probability 1/4, at +-2^10..2^20), 1..=4 variables, integer nodal data; \
         write histories of 1..=30 steps through set_nodes_vars, IndexMut, +=, apply (bilinear function) and assign against an array model. Checked: nnodes/nvars/nodes/coord/xnodes/ynodes, get_nodes_vars and the index operator at every node, \
         cross_section_xnode/ynode (other direction's nodes, right row/column), var_as_matrix (nx x ny, entry (i,j)); 1-D interpolation at every node (nodal value) and at the mid-point, two random interior points and two points 2e-6..1e-4 inside either end of every cell (all at least 1e-6 from a node) \
         (linear interpolant, 1e-12 relative); trapezium and square_trapezium against the double-double sum of cell contributions, and against the closed form for linear (1-D) / bilinear (2-D) data; output(file, precision 3..=12) (one time in two over an existing longer file at the same path) then read into a mesh that previously had 2..=16 nodes and other data (and, one time in two, has been interpolated and integrated before) \
         reproduces nodes and variables within 0.5*10^-precision, and the mesh read back answers every access path, trapezium and interpolation consistently; finally 4..=24 (2-D: 3..=16) steps of queries interleaved with writes through every write path (1-D: interpolation mostly in the cell just written, trapezium; 2-D: trapezium, square_trapezium, var_as_matrix, cross-sections), each answer compared with the model as it is at that moment. Non-trivial: non-uniform grid with >= 3 nodes per direction (2-D: nx != ny as well). distinct = distinct decoded choice sequence."
            .into()
    }
    fn assumptions(&self) -> Vec<String> {
        vec![
            "interpolation points stay at least 1e-6 away from every node (inside the implementation's 1e-7 snapping window the neighbouring cell's line may be used)".into(),
            "scratch files live in a per-process directory under the system temp dir and are removed after use".into(),
        ]
    }
    fn stream_len(&self, _tier: Tier) -> usize {
        640
    }
    fn random_cases(&self, tier: Tier) -> usize {
        tier.pick(40_000, 600_000)
    }
    fn run(&self, case: &mut Case) -> Outcome {
        let r = if case.src.coin() { mesh1d(case) } else { mesh2d(case) };
        match r {
            Ok(()) => Outcome::Pass,
            Err(m) => Outcome::Fail(m),
        }
    }
}
