//! C09 — iterative solvers converge on well-posed systems and never corrupt a correct x.

use super::itersys::*;
use crate::engine::{catch, Case, Outcome, Prop, Tier};
use ohsl::Vector;

pub struct C09;

/// which matrix kinds (indices into itersys::KINDS) are well-posed for which solver
fn kinds_for(solver: usize) -> &'static [usize] {
    if solver == 0 {
        &[0, 1] // CG: SPD
    } else {
        &[3, 4, 0] // BiCG / BiCGSTAB / QMR: strictly diagonally dominant (nonsymmetric, either diagonal sign; symmetric positive)
    }
}

fn integer_system(src: &mut crate::stream::Src, n: usize, spd: bool) -> (D, Vec<f64>, Vec<f64>) {
    // integer data: strictly diagonally dominant, x* integer, b = A x* exact
    let mut a = vec![vec![0.0; n]; n];
    for i in 0..n {
        for j in 0..n {
            if i != j && src.below(3) == 0 {
                let v = src.small_int(3) as f64;
                a[i][j] = v;
                if spd {
                    a[j][i] = v;
                }
            }
        }
    }
    for i in 0..n {
        let s: f64 = (0..n).filter(|&j| j != i).map(|j| a[i][j].abs()).sum();
        a[i][i] = s + 1.0 + src.below(3) as f64;
        if !spd && src.below(4) == 0 {
            a[i][i] = -a[i][i];
        }
    }
    let xs: Vec<f64> = (0..n).map(|_| src.small_int(9) as f64).collect();
    let b = matvec(&a, &xs);
    (a, xs, b)
}

fn run(case: &mut Case) -> Result<Outcome, String> {
    let nmax = case.tier.pick(30, 60);
    let solver = case.src.usize_below(5);
    let degenerate = case.src.below(5) == 0;
    let n = 1 + case.src.usize_below(nmax);
    if degenerate {
        // ---- (3) starts that are already solved
        let zero_rhs = case.src.coin();
        let (a, xs, b) = integer_system(&mut case.src, n, solver == 0);
        let (b, x0) = if zero_rhs { (vec![0.0; n], vec![0.0; n]) } else { (b, xs.clone()) };
        let tol = 10f64.powf(case.src.f64_in(-12.0, -3.0));
        let budget = 10 * n + 50;
        let sp = to_sparse(&a, &mut case.src);
        let bv = Vector::create(b.clone());
        let mut xv = Vector::create(x0.clone());
        case.class(format!("{} degenerate-start {}", SOLVERS[solver], if zero_rhs { "b=0,x0=0" } else { "exact-guess" }));
        case.mark_nontrivial();
        case.describe(|| format!("{} degenerate start (zero_rhs={}) n={} tol={:.3e} A={:?} b={:?} x0={:?}", SOLVERS[solver], zero_rhs, n, tol, a, b, x0));
        let res = match catch(|| call(solver, &sp, &bv, &mut xv, budget, tol)) {
            Ok(r) => r,
            Err(e) => return Err(format!("{} panicked: {}", SOLVERS[solver], e)),
        };
        let x = xv.vec;
        if x.iter().any(|v| !v.is_finite()) {
            return Err(format!("{}: a start that already solves the system (residual exactly 0) was turned into a non-finite x = {:?} (result {:?})", SOLVERS[solver], x, res));
        }
        if let Err(e) = res {
            return Err(format!("{}: a start that already solves the system was not accepted: Err({:?}), x = {:?}", SOLVERS[solver], e, x));
        }
        let r = true_residual(&a, &x, &b);
        let nb = norm2(&b);
        if !(r <= tol * if nb == 0.0 { 1.0 } else { nb }) {
            return Err(format!("{}: x no longer solves the system after the call: residual {:.3e}; x = {:?}", SOLVERS[solver], r, x));
        }
        return Ok(Outcome::Pass);
    }
    // ---- (1) convergence and (2) accuracy on well-posed systems
    let ks = kinds_for(solver);
    let kind = ks[case.src.usize_below(ks.len())];
    // quick tier: the B^T B + mu I systems (whose CG runs are the long ones) at twice the order drawn, 2..=60, so that runs
    // of 64 and more iterations occur in every tier
    // ... and for every other kind the upper third of the quick range, 21..=30, stands for the orders 51..=60
    let n = if case.tier == Tier::Quick && KINDS[kind] == "spd-btb" { 2 * n } else if case.tier == Tier::Quick && n > 20 { n + 30 } else { n };
    // half of the diagonally dominant SPD systems: narrow band (1 or 2 off-diagonals) with a tight dominance margin
    // (1e-3 .. 1e-1) at an order from the upper half of the range - condition number of a few hundred, on which CG needs
    // more iterations than the order (runs of 64 .. 150 iterations)
    let banded = KINDS[kind] == "spd-dominant" && case.src.coin();
    let n = if banded { 31 + case.src.usize_below(30) } else { n };
    let a = if banded {
        let w = 1 + case.src.usize_below(2);
        let margin = 10f64.powf(case.src.f64_in(-3.0, -1.0));
        let mut a = vec![vec![0.0; n]; n];
        for i in 0..n {
            for j in i + 1..(i + w + 1).min(n) {
                let v = case.src.f64_in(0.2, 1.0) * if case.src.coin() { 1.0 } else { -1.0 };
                a[i][j] = v;
                a[j][i] = v;
            }
        }
        for i in 0..n {
            let sum: f64 = (0..n).filter(|&j| j != i).map(|j| a[i][j].abs()).sum();
            a[i][i] = sum * (1.0 + margin);
        }
        case.class("narrow-banded SPD with a tight dominance margin");
        a
    } else {
        gen_matrix(&mut case.src, n, kind)
    };
    let xstar: Vec<f64> = (0..n).map(|_| case.src.f64_in(-2.0, 2.0)).collect();
    let sc = if case.src.below(3) == 0 { 10f64.powf(case.src.f64_in(-6.0, 6.0)) } else { 1.0 };
    let b: Vec<f64> = if case.src.below(10) == 0 { vec![0.0; n] } else { matvec(&a, &xstar).iter().map(|v| v * sc).collect() };
    let x0: Vec<f64> = match case.src.below(3) {
        0 => vec![0.0; n],
        1 => (0..n).map(|_| sc * case.src.f64_in(-3.0, 3.0)).collect(),
        _ => xstar.iter().map(|v| v * sc).collect(),
    };
    // one case in six: a reducible (block lower triangular) pattern and a right-hand side of mixed magnitudes -
    // O(1) on the leading block, 16 to 22 decades smaller (but non-zero) elsewhere
    let reducible = kind >= 3 && n >= 2 && case.src.below(6) == 0;
    let (a, b) = if reducible {
        let split = 1 + case.src.usize_below(n - 1);
        let mut a = a;
        for i in 0..split {
            for j in split..n {
                a[i][j] = 0.0;
            }
        }
        let tiny = 10f64.powf(case.src.f64_in(-22.0, -16.0));
        let b: Vec<f64> = (0..n).map(|i| if i < split { case.src.f64_in(-2.0, 2.0) } else { tiny * case.src.f64_in(0.5, 3.0) * if case.src.coin() { 1.0 } else { -1.0 } }).collect();
        case.class("reducible pattern with mixed-magnitude rhs");
        (a, b)
    } else {
        (a, b)
    };
    let mut tol = 10f64.powf(case.src.f64_in(-12.0, -3.0));
    if reducible {
        // next to a Lanczos breakdown (reducible pattern, right-hand side almost inside an invariant subspace) the
        // look-ahead-free recurrences lose digits; BiCG / BiCGSTAB still reach 1e-10 on the pinned tree, QMR does not
        // always (known finding D14, attributed below by its input-level signature)
        tol = tol.max(1e-10);
    }
    let budget = 10 * n + 50;
    case.describe(|| format!("first solver {} n={} kind={} tol={:.3e} A={:?} b={:?} x0={:?}", SOLVERS[solver], n, KINDS[kind], tol, a, b, x0));
    // every entry point for which this kind of system is well-posed
    let todo: Vec<usize> = match kind {
        0 => vec![0, 1, 2, 3, 4],
        1 => vec![0],
        _ => vec![1, 2, 3, 4],
    };
    let mut judged = 0;
    let mut last_discard = "not judged";
    for sv in todo {
        match one(case, sv, kind, n, &a, &b, &x0, &xstar, sc, tol, budget, reducible)? {
            Outcome::Discard(r) => last_discard = r,
            Outcome::Known(k, w) => return Ok(Outcome::Known(k, w)),
            _ => judged += 1,
        }
    }
    if judged == 0 {
        return Ok(Outcome::Discard(last_discard));
    }
    Ok(Outcome::Pass)
}

/// multiple of eps*(|A| |x| + |b|) below which a requested residual is not judged (survey override: VERIF_C09_FLOOR)
fn floor_factor() -> f64 {
    static F: std::sync::OnceLock<f64> = std::sync::OnceLock::new();
    *F.get_or_init(|| std::env::var("VERIF_C09_FLOOR").ok().and_then(|v| v.parse().ok()).unwrap_or(1e3))
}

#[allow(clippy::too_many_arguments)]
fn one(case: &mut Case, solver: usize, kind: usize, n: usize, a: &D, b: &[f64], x0: &[f64], xstar: &[f64], sc: f64, tol: f64, budget: usize, reducible: bool) -> Result<Outcome, String> {
    let (a, b, x0, xstar) = (a.clone(), b.to_vec(), x0.to_vec(), xstar.to_vec());
    case.class(format!("{} {}", SOLVERS[solver], KINDS[kind]));
    // the requested residual must lie above the rounding floor of any residual recurrence
    {
        let nb = norm2(&b);
        let nbn = if nb == 0.0 { 1.0 } else { nb };
        let floor = floor_factor() * super::util::EPS * (frob(&a) * norm2(&x0).max(norm2(&xstar) * sc) + nb);
        if tol * nbn < floor {
            return Ok(Outcome::Discard("tolerance below 1e3*eps*(|A| |x| + |b|): not attainable in double precision"));
        }
    }
    // well-posed for the method? judged only when the textbook method converges comfortably
    let ref_budget = 3 * n + 10;
    let ref_tol = tol * 1e-3;
    let ref_it = match solver {
        0 => ref_cg(&a, &b, &x0, ref_tol, ref_budget),
        1 | 2 | 4 => ref_bicg(&a, &b, &x0, ref_tol, ref_budget),
        _ => ref_bicgstab(&a, &b, &x0, ref_tol, ref_budget),
    };
    let Some(ref_it) = ref_it else { return Ok(Outcome::Discard("textbook method does not converge within 3n+10 at tol*1e-3")) };
    if solver == 4 {
        // QMR builds its iterates from a look-ahead-free two-sided Lanczos process: wherever that process comes close
        // to a breakdown (|r~.r| << ||r~|| ||r||, or |p~.A p| << ||p~|| ||A p|| - common with a diagonal of mixed
        // signs) the attainable residual grows by that factor.  Measured on the pinned tree over 1M systems: the
        // level at which solve_qmr stalls never exceeded 0.84 * amp * eps * (|A| |x| + |b|), amp the largest such
        // ratio seen by the textbook BiCG run; tolerances below 100 * amp * that unit are not judged for QMR.
        if let Some((_, lan, piv)) = ref_bicg_amp(&a, &b, &x0, ref_tol, ref_budget) {
            let nb = norm2(&b);
            let nbn = if nb == 0.0 { 1.0 } else { nb };
            let unit = super::util::EPS * (frob(&a) * norm2(&x0).max(norm2(&xstar) * sc) + nb);
            if !reducible && tol * nbn < 100.0 * lan.max(piv) * unit {
                case.class("qmr run not judged: tolerance below the near-breakdown floor");
                return Ok(Outcome::Discard("qmr: tolerance below 100*amp*eps*(|A| |x| + |b|), amp = closeness of the Lanczos process to a breakdown"));
            }
        }
    }
    let Some(kf) = cond_frob(&a) else { return Ok(Outcome::Discard("numerically singular")) };
    if kf > 1e8 {
        return Ok(Outcome::Discard("condition number > 1e8"));
    }
    // the solver runs the same method at a 1000x looser tolerance: it must not need more than
    // 3x the textbook count (+15); calibration: worst observed it/(ref_it+2) = 0.98 over 800k systems
    let budget = budget.min(3 * ref_it + 15);
    let sp = to_sparse(&a, &mut case.src);
    let bv = Vector::create(b.clone());
    let mut xv = Vector::create(x0.clone());
    let res = match catch(|| call(solver, &sp, &bv, &mut xv, budget, tol)) {
        Ok(r) => r,
        Err(e) => return Err(format!("{} panicked: {}", SOLVERS[solver], e)),
    };
    let x = xv.vec;
    let it = match res {
        Ok(it) => it,
        Err(e) => {
            if crate::calib::on() && !reducible {
                let nb = norm2(&b);
                let nbn = if nb == 0.0 { 1.0 } else { nb };
                let unit = super::util::EPS * (frob(&a) * norm2(&x0).max(norm2(&xstar) * sc) + nb);
                let name: &'static str = ["c09 stall cg", "c09 stall bicg1", "c09 stall bicg2", "c09 stall bicgstab", "c09 stall qmr"][solver];
                let amp = super::itersys::ref_bicg_amp(&a, &b, &x0, ref_tol, ref_budget);
                crate::calib::note(name, e * nbn / unit, || format!("n={} {} tol={:.3e} e={:.3e} ref_it={} amp={:?}", n, KINDS[kind], tol, e, ref_it, amp));
                if solver == 4 {
                    if let Some((_, l, pv)) = amp {
                        crate::calib::note("c09 stall qmr / lanczos amp", e * nbn / unit / l, || format!("n={} {} tol={:.3e} e={:.3e} amp={:?}", n, KINDS[kind], tol, e, amp));
                        crate::calib::note("c09 stall qmr / pivot amp", e * nbn / unit / pv, || format!("n={} {} tol={:.3e} e={:.3e} amp={:?}", n, KINDS[kind], tol, e, amp));
                        crate::calib::note("c09 stall qmr / max amp", e * nbn / unit / pv.max(l), || format!("n={} {} tol={:.3e} e={:.3e} amp={:?}", n, KINDS[kind], tol, e, amp));
                    }
                }
            }
            // known finding D14 - signature from the input alone: QMR, block lower triangular pattern, right-hand side
            // at least 15 decades smaller outside the leading block, tolerance below 1e-5
            if solver == 4 && reducible && tol < 1e-5 && case.findings.is_known("C09", "D14-qmr-near-breakdown") {
                return Ok(Outcome::Known(
                    "D14-qmr-near-breakdown",
                    "solve_qmr (no look-ahead) stalls above the tolerance next to a Lanczos breakdown: strictly diagonally dominant block lower triangular system whose right-hand side is O(1) on the leading block and 1e-22..1e-16 elsewhere, tolerance below 1e-5".into(),
                ));
            }
            return Err(format!(
                "{} did not converge within min(10n+50, 3*ref+15) = {} iterations (Err({:.3e})) on a well-posed system on which the textbook method needs {} iterations for a 1000x smaller tolerance",
                SOLVERS[solver], budget, e, ref_it
            ))
        }
    };
    crate::calib::note("c09 it/(ref_it+2)", it as f64 / (ref_it as f64 + 2.0), || format!("{} n={} {} ref_it={} it={}", SOLVERS[solver], n, KINDS[kind], ref_it, it));
    crate::calib::note("c09 it/(n+5)", it as f64 / (n as f64 + 5.0), || format!("{} n={} {} ref_it={}", SOLVERS[solver], n, KINDS[kind], ref_it));
    let offdiag = (0..n).map(|i| (0..n).filter(|&j| j != i && a[i][j] != 0.0).count()).sum::<usize>();
    if n >= 8 && offdiag >= n && it >= 3 {
        case.mark_nontrivial();
    }
    case.class(format!("iterations/n {}", if it <= n { "<=1" } else if it <= 2 * n { "<=2" } else { ">2" }));
    // accuracy against the direct dense solution
    let Some(xd) = dense_solve(&a, &b) else { return Ok(Outcome::Discard("reference dense solve failed")) };
    let nx = norm2(&xd);
    let err = norm2(&x.iter().zip(&xd).map(|(p, q)| p - q).collect::<Vec<_>>());
    // residual-based stop: ||b - A x|| <= tol*||b||' (||b||' = 1 when b = 0)  =>  ||x - x*|| <= ||A^-1|| tol ||b||'
    let nb = norm2(&b);
    let nbn = if nb == 0.0 { 1.0 } else { nb };
    let fa = frob(&a);
    let inv_f = kf / fa;
    let xbig = nx.max(norm2(&x0)).max(norm2(&x));
    let drift = 200.0 * (n as f64 + 2.0) * super::util::EPS * (it as f64 + 1.0) * (fa * xbig + nb);
    let allow = inv_f * (10.0 * tol * nbn + drift) + 1e-10 * (nx + norm2(&x0));
    crate::calib::note("c09 err/(|A^-1| tol |b|)", err / (inv_f * tol * nbn).max(1e-300), || format!("{} n={} {}", SOLVERS[solver], n, KINDS[kind]));
    if !(err <= allow) {
        // the gap between the recurrence residual and the true residual grows with the largest intermediate iterate
        // (huge steps next to a near-breakdown): measure it by deterministic budget replay, as C08 does
        let mut xmax = xbig;
        for k in 1..it {
            let mut xr = Vector::create(x0.clone());
            let _ = catch(|| call(solver, &sp, &bv, &mut xr, k, tol));
            let v = norm2(&xr.vec);
            if v.is_finite() {
                xmax = xmax.max(v);
            }
        }
        case.class("largest iterate measured by budget replay");
        let drift = 200.0 * (n as f64 + 2.0) * super::util::EPS * (it as f64 + 1.0) * (fa * xmax + nb);
        let allow = inv_f * (10.0 * tol * nbn + drift) + 1e-10 * (nx + norm2(&x0));
        if !(err <= allow) {
            return Err(format!(
                "{}: Ok({}) but ||x - x*|| = {:.3e} exceeds ||A^-1||_F*(10*tol*||b|| + drift) + 1e-10*(||x*||+||x0||) = {:.3e} (kappa_F = {:.2e}, tol = {:.1e}, largest iterate {:.3e}); x = {:?}, x* = {:?}",
                SOLVERS[solver], it, err, allow, kf, tol, xmax, x, xd
            ));
        }
    }
    Ok(Outcome::Pass)
}

impl Prop for C09 {
    fn id(&self) -> &'static str {
        "C09"
    }
    fn rule(&self) -> String {
        "per case (4/5) a well-posed system and every entry point it is well-posed for (all five on symmetric diagonally dominant positive systems, CG alone on B^T B + mu I, the four non-CG entry points on nonsymmetric diagonally dominant systems): CG on SPD (symmetric strictly diagonally dominant with positive diagonal, slack 1.02..3; B^T B + mu I), \
         BiCG (itol 1 and 2) / BiCGSTAB / QMR on strictly row-diagonally dominant systems (nonsymmetric with positive or mixed-sign diagonal, symmetric positive); order 1..=30 (thorough 1..=60); continuous random values, \
         any sparsity (density 1/8..7/8) and triplet order; right-hand side A x* scaled by 1e-6..1e6 or zero, and for one nonsymmetric case in six a block lower triangular pattern with a right-hand side that is O(1) on the leading block and 1e-22..1e-16 elsewhere (tol >= 1e-10 there; QMR failures at tol < 1e-5 on this class carry the input-level signature of known finding D14, at tol >= 1e-5 they are violations); guess zero / random / exact; tol = 10^[-12,-3]; budget min(10n+50, 3*ref_it+15) where ref_it is the iteration count of the harness's textbook method at tol*1e-3. \
         Judged only when tol*||b||' >= 1e3*eps*(||A||_F*max(||x0||,||x*||)+||b||) (attainable in double precision) and the harness's textbook implementation of the method (BiCG for QMR) converges within 3n+10 iterations at tol*1e-3 and kappa_F <= 1e8 (otherwise discarded and counted): \
         the solver must answer Ok and ||x - x*||_2 <= ||A^-1||_F*(10*tol*||b||' + drift) + 1e-10*(||x*||+||x0||) against the harness's refined dense solve (||b||' = 1 when b = 0, drift as in C08), which is at most 10*kappa_F*tol*||x*|| plus rounding. \
         (1/5) degenerate starts on integer data: an initial guess with exactly zero residual, or b = 0 with x0 = 0: the answer must be Ok, x finite and still a solution. \
         Non-trivial: n >= 8, >= n off-diagonal entries and >= 3 iterations; every degenerate start. distinct = distinct decoded choice sequence."
            .into()
    }
    fn assumptions(&self) -> Vec<String> {
        vec![
            "well-posedness for a method is decided by the harness's own textbook implementation with a 3x smaller budget and a 1000x smaller tolerance".into(),
            "exact breakdowns have probability 0 on continuous data; integer data is used only for the degenerate starts".into(),
        ]
    }
    fn stream_len(&self, tier: Tier) -> usize {
        tier.pick(2400, 8200)
    }
    fn random_cases(&self, tier: Tier) -> usize {
        tier.pick(16_000, 200_000)
    }
    fn run(&self, case: &mut Case) -> Outcome {
        match run(case) {
            Ok(o) => o,
            Err(m) => Outcome::Fail(m),
        }
    }
}
