//! C05 — tridiagonal matrix of any size equals its dense twin; solve is exact or refuses.

use super::util::*;
use crate::engine::{catch, Case, Outcome, Prop, Tier};
use crate::gen::Elem;
use crate::rat::Rat;
use crate::refla::{self, Field, M};
use crate::stream::{raw_for, Src};
use ohsl::{Cmplx, Tridiagonal, Vector};
use std::any::Any;

pub struct C05;

/// backward error of the Thomas algorithm on strictly diagonally dominant systems:
/// bound DD_C * eps; worst observed ratio on the pinned tree 1.6 (see DESIGN.md)
const DD_C: f64 = 200.0;
/// determinant: |det - exact| <= DET_C * n * eps * G, G = the recurrence evaluated on absolute values
const DET_C: f64 = 64.0;

fn diag_value<T: Elem>(src: &mut Src, zero_rich: bool) -> T {
    if zero_rich && src.below(3) == 0 {
        T::from_int(0)
    } else {
        T::small(src)
    }
}

fn dense_of<T: Elem>(sub: &[T], main: &[T], sup: &[T]) -> M<T> {
    let n = main.len();
    let z = T::from_int(0);
    let mut a = vec![vec![z; n]; n];
    for i in 0..n {
        a[i][i] = main[i];
        if i + 1 < n {
            a[i + 1][i] = sub[i];
            a[i][i + 1] = sup[i];
        }
    }
    a
}

fn tri_eq<T: Elem>(t: &Tridiagonal<T>, sub: &[T], main: &[T], sup: &[T], what: &str) -> Result<(), String> {
    let n = main.len();
    if t.size() != n {
        return Err(format!("{}: size {} expected {}", what, t.size(), n));
    }
    if t.subdiagonal().vec.len() != n - 1 || t.superdiagonal().vec.len() != n - 1 || t.maindiagonal().vec.len() != n {
        return Err(format!("{}: diagonal lengths {}/{}/{} for n = {}", what, t.subdiagonal().vec.len(), t.maindiagonal().vec.len(), t.superdiagonal().vec.len(), n));
    }
    for i in 0..n {
        if !(t[(i, i)] == main[i]) {
            return Err(format!("{}: entry ({},{}) = {:?}, expected {:?}", what, i, i, t[(i, i)], main[i]));
        }
        if i + 1 < n {
            if !(t[(i + 1, i)] == sub[i]) {
                return Err(format!("{}: entry ({},{}) = {:?}, expected {:?}", what, i + 1, i, t[(i + 1, i)], sub[i]));
            }
            if !(t[(i, i + 1)] == sup[i]) {
                return Err(format!("{}: entry ({},{}) = {:?}, expected {:?}", what, i, i + 1, t[(i, i + 1)], sup[i]));
            }
        }
    }
    if t.subdiagonal().vec.iter().zip(sub).any(|(p, q)| !(p == q)) || t.maindiagonal().vec.iter().zip(main).any(|(p, q)| !(p == q)) || t.superdiagonal().vec.iter().zip(sup).any(|(p, q)| !(p == q)) {
        return Err(format!("{}: diagonal accessors disagree with the stored diagonals", what));
    }
    Ok(())
}

fn small_exact(r: &Rat) -> bool {
    let d = r.den();
    d > 0 && (d & (d - 1)) == 0 && d <= (1 << 10) && r.num().abs() < (1 << 20)
}

/// exact Thomas recurrence over the embedding field; returns Some(step) of the first zero pivot
fn thomas_zero_pivot<X: Field>(sub: &[X], main: &[X], sup: &[X], all: &mut Vec<X>) -> Option<usize> {
    let n = main.len();
    let mut beta = main[0];
    all.push(beta);
    if beta.is_zero() {
        return Some(0);
    }
    for j in 1..n {
        let gamma = sup[j - 1].fdiv(beta);
        beta = main[j] - sub[j - 1] * gamma;
        all.push(gamma);
        all.push(beta);
        if beta.is_zero() {
            return Some(j);
        }
    }
    None
}

fn run_t<T: Elem>(case: &mut Case) -> Result<Outcome, String> {
    let n = 1 + case.src.usize_below(12);
    let ctor = case.src.below(4);
    let flavor = case.src.below(4); // 0 zero-rich, 1 plain, 2 diagonally dominant, 3 continuous (floats)
    let z = T::from_int(0);
    let cont = flavor == 3 && !T::EXACT;
    let g = |src: &mut Src| -> T {
        if cont {
            T::cont(src)
        } else {
            diag_value::<T>(src, flavor == 0)
        }
    };
    let (mut sub, mut main, mut sup): (Vec<T>, Vec<T>, Vec<T>);
    if ctor == 1 {
        let (a, b, c) = (g(&mut case.src), g(&mut case.src), g(&mut case.src));
        sub = vec![a; n - 1];
        main = vec![b; n];
        sup = vec![c; n - 1];
    } else {
        sub = (0..n - 1).map(|_| g(&mut case.src)).collect();
        main = (0..n).map(|_| g(&mut case.src)).collect();
        sup = (0..n - 1).map(|_| g(&mut case.src)).collect();
    }
    if flavor == 2 {
        // strictly diagonally dominant by rows: |d_i| > |a_i| + |c_i|
        for i in 0..n {
            let mut s = 1.0;
            if i > 0 {
                s += refla::cabs(sub[i - 1].to_c());
            }
            if i + 1 < n {
                s += refla::cabs(sup[i].to_c());
            }
            let k = s.ceil() as i64 + case.src.below(3) as i64;
            main[i] = if case.src.coin() { T::from_int(k) } else { T::from_int(-k) };
        }
        if ctor == 1 {
            let (a, b, c) = (T::small(&mut case.src), T::from_int(0), T::small(&mut case.src));
            let k = (refla::cabs(a.to_c()) + refla::cabs(c.to_c()) + 1.0).ceil() as i64;
            sub = vec![a; n - 1];
            main = vec![b + T::from_int(k); n];
            sup = vec![c; n - 1];
        }
    }
    // float types: the whole matrix (and right-hand side) at a tiny or huge scale, exact power of two
    let gk: i32 = if !T::EXACT && flavor == 2 && case.src.coin() { case.src.small_int(if T::NAME == "cmplx" { 300 } else { 600 }) as i32 } else { 0 }; // complex products/quotients square the moduli: stay inside 1e-100..1e100 (C13's range)
    if gk != 0 {
        sub = sub.iter().map(|v| v.scale2(gk)).collect();
        main = main.iter().map(|v| v.scale2(gk)).collect();
        sup = sup.iter().map(|v| v.scale2(gk)).collect();
        case.class("globally scaled by 2^k, |k| <= 600");
    }
    let t: Tridiagonal<T> = match ctor {
        0 => {
            let mut t = Tridiagonal::<T>::new(n);
            for i in 0..n {
                t[(i, i)] = main[i];
                if i + 1 < n {
                    t[(i + 1, i)] = sub[i];
                    t[(i, i + 1)] = sup[i];
                }
            }
            t
        }
        1 => Tridiagonal::with_elements(sub.first().copied().unwrap_or(z), main[0], sup.first().copied().unwrap_or(z), n),
        2 => Tridiagonal::with_vecs(sub.clone(), main.clone(), sup.clone()),
        _ => Tridiagonal::with_vectors(to_vector(&sub), to_vector(&main), to_vector(&sup)),
    };
    let a = dense_of(&sub, &main, &sup);
    let x: Vec<T> = (0..n).map(|_| if cont { T::cont(&mut case.src) } else { T::small(&mut case.src) }).collect();
    let rhs: Vec<T> = (0..n).map(|_| if cont { T::cont(&mut case.src) } else { T::small(&mut case.src) }).collect();
    let flavor_name = ["zero-rich", "plain", "diag-dominant", "continuous"][if cont { 3 } else if flavor == 3 { 1 } else { flavor as usize }];
    case.class(format!("{}:{}", T::NAME, flavor_name));
    case.class(format!("ctor={}", ["new+index", "with_elements", "with_vecs", "with_vectors"][ctor as usize]));
    case.class(format!("n={}", n));
    let has_zero_offdiag = sub.iter().chain(sup.iter()).any(|v| v.is_zero_e());
    if n <= 2 {
        case.mark_nontrivial();
        case.class("n<=2");
    }
    if has_zero_offdiag {
        case.mark_nontrivial();
        case.class("zero off-diagonal entry");
    }
    case.describe(|| format!("{} n={} ctor={} sub={:?} main={:?} sup={:?} x={:?} b={:?}", T::NAME, n, ctor, sub, main, sup, x, rhs));

    tri_eq(&t, &sub, &main, &sup, "after construction")?;
    // ---- off-band and out-of-range index must panic
    if n >= 3 {
        let i = case.src.usize_below(n - 2);
        if catch(|| t[(i, i + 2)]).is_ok() || catch(|| t[(i + 2, i)]).is_ok() {
            return Err(format!("index off the band ({},{}) did not panic", i, i + 2));
        }
    }
    if catch(|| t[(n, n)]).is_ok() || catch(|| t[(n, n - 1)]).is_ok() || catch(|| t[(n - 1, n)]).is_ok() {
        return Err("index outside the matrix did not panic".into());
    }
    // ---- dense conversion
    let d = t.convert();
    if d.rows() != n || d.cols() != n {
        return Err(format!("convert(): shape {}x{}", d.rows(), d.cols()));
    }
    for i in 0..n {
        for j in 0..n {
            if !(d[(i, j)] == a[i][j]) {
                return Err(format!("convert(): entry ({},{}) = {:?}, expected {:?}", i, j, d[(i, j)], a[i][j]));
            }
        }
    }
    // ---- transpose
    let tt = t.transpose();
    tri_eq(&tt, &sup, &main, &sub, "transpose()")?;
    let mut t2 = t.clone();
    t2.transpose_in_place();
    tri_eq(&t2, &sup, &main, &sub, "transpose_in_place()")?;
    t2.transpose_in_place();
    tri_eq(&t2, &sub, &main, &sup, "transpose twice")?;
    // ---- conj (complex only), f64 * T (f64 only)
    if let Some(tc) = (&t as &dyn Any).downcast_ref::<Tridiagonal<Cmplx>>() {
        let c = tc.conj();
        for i in 0..n {
            let e = tc[(i, i)];
            let g = c[(i, i)];
            if g.real != e.real || g.imag != -e.imag {
                return Err(format!("conj(): diagonal entry {} = {:?}, expected conj of {:?}", i, g, e));
            }
            if i + 1 < n {
                let (e1, g1, e2, g2) = (tc[(i + 1, i)], c[(i + 1, i)], tc[(i, i + 1)], c[(i, i + 1)]);
                if g1.real != e1.real || g1.imag != -e1.imag || g2.real != e2.real || g2.imag != -e2.imag {
                    return Err(format!("conj(): off-diagonal entries at {} wrong", i));
                }
            }
        }
        if c.size() != n {
            return Err("conj(): size changed".into());
        }
    }
    // ---- arithmetic
    let s = if cont { T::from_int(2) } else { T::small(&mut case.src) };
    let snz = if cont { T::from_int(2) } else { T::small_nz(&mut case.src) };
    let (sub2, main2, sup2): (Vec<T>, Vec<T>, Vec<T>) = ((0..n - 1).map(|_| T::small(&mut case.src)).collect(), (0..n).map(|_| T::small(&mut case.src)).collect(), (0..n - 1).map(|_| T::small(&mut case.src)).collect());
    let u = Tridiagonal::with_vecs(sub2.clone(), main2.clone(), sup2.clone());
    let f2 = |p: &[T], q: &[T], f: &dyn Fn(T, T) -> T| -> Vec<T> { p.iter().zip(q).map(|(x, y)| f(*x, *y)).collect() };
    let f1 = |p: &[T], f: &dyn Fn(T) -> T| -> Vec<T> { p.iter().map(|x| f(*x)).collect() };
    let exact_arith = T::EXACT || (!cont && gk == 0);
    if exact_arith {
        let add = |x: T, y: T| x + y;
        let sb = |x: T, y: T| x - y;
        tri_eq(&(t.clone() + u.clone()), &f2(&sub, &sub2, &add), &f2(&main, &main2, &add), &f2(&sup, &sup2, &add), "T + U")?;
        tri_eq(&(t.clone() - u.clone()), &f2(&sub, &sub2, &sb), &f2(&main, &main2, &sb), &f2(&sup, &sup2, &sb), "T - U")?;
        tri_eq(&(-t.clone()), &f1(&sub, &|x| -x), &f1(&main, &|x| -x), &f1(&sup, &|x| -x), "-T")?;
        tri_eq(&(t.clone() * s), &f1(&sub, &|x| x * s), &f1(&main, &|x| x * s), &f1(&sup, &|x| x * s), "T * s")?;
        let mut w = t.clone();
        w *= s;
        tri_eq(&w, &f1(&sub, &|x| x * s), &f1(&main, &|x| x * s), &f1(&sup, &|x| x * s), "T *= s")?;
        let mut w = t.clone();
        w += s;
        tri_eq(&w, &f1(&sub, &|x| x + s), &f1(&main, &|x| x + s), &f1(&sup, &|x| x + s), "T += s")?;
        let mut w = t.clone();
        w -= s;
        tri_eq(&w, &f1(&sub, &|x| x - s), &f1(&main, &|x| x - s), &f1(&sup, &|x| x - s), "T -= s")?;
        if !T::EXACT {
            // exactly representable quotients: (T * s) / s gives T back
            let ts = t.clone() * snz;
            tri_eq(&(ts.clone() / snz), &sub, &main, &sup, "(T * s) / s")?;
            let mut w = ts;
            w /= snz;
            tri_eq(&w, &sub, &main, &sup, "(T * s) /= s")?;
        }
        if T::EXACT {
            tri_eq(&(t.clone() / snz), &f1(&sub, &|x| x / snz), &f1(&main, &|x| x / snz), &f1(&sup, &|x| x / snz), "T / s")?;
            let mut w = t.clone();
            w /= snz;
            tri_eq(&w, &f1(&sub, &|x| x / snz), &f1(&main, &|x| x / snz), &f1(&sup, &|x| x / snz), "T /= s")?;
        }
        if let Some(tf) = (&t as &dyn Any).downcast_ref::<Tridiagonal<f64>>() {
            let k = 3.0f64;
            let w = k * tf.clone();
            for i in 0..n {
                if w[(i, i)] != k * tf[(i, i)] || (i + 1 < n && (w[(i + 1, i)] != k * tf[(i + 1, i)] || w[(i, i + 1)] != k * tf[(i, i + 1)])) {
                    return Err(format!("f64 * T: entries at {} wrong", i));
                }
            }
        }
        tri_eq(&t, &sub, &main, &sup, "operand after arithmetic on clones")?;
    }
    // resize zeroes everything
    let mut w = t.clone();
    let n2 = 1 + case.src.usize_below(12);
    w.resize(n2);
    tri_eq(&w, &vec![z; n2 - 1], &vec![z; n2], &vec![z; n2 - 1], "resize")?;

    // ---- matrix-vector product
    let xv: Vector<T> = to_vector(&x);
    let p = match catch(|| &t * &xv) {
        Ok(p) => p.vec,
        Err(e) => return Err(format!("&T * &v panicked for n = {}: {}", n, e)),
    };
    let p2 = match catch(|| t.clone() * xv.clone()) {
        Ok(p) => p.vec,
        Err(e) => return Err(format!("T * v panicked for n = {}: {}", n, e)),
    };
    if p.len() != n || p2.len() != n {
        return Err(format!("product length {} / {}", p.len(), p2.len()));
    }
    for i in 0..n {
        if !p[i].same(&p2[i]) {
            return Err("consuming and borrowed products differ".into());
        }
    }
    if exact_arith {
        let e = refla::matvec(&a, &x, z);
        for i in 0..n {
            if !(p[i] == e[i]) {
                return Err(format!("&T * &v = {:?}, dense product {:?}", p, e));
            }
        }
    } else {
        for i in 0..n {
            let mut sdd = crate::dd::Cdd::ZERO;
            let mut mag = 0.0;
            for j in 0..n {
                sdd = sdd + crate::dd::Cdd::from(a[i][j].to_c()) * crate::dd::Cdd::from(x[j].to_c());
                mag += refla::cabs(a[i][j].to_c()) * refla::cabs(x[j].to_c());
            }
            let err = refla::cabs(refla::csub(p[i].to_c(), sdd.to_c()));
            if !(err <= 16.0 * EPS * mag) {
                return Err(format!("&T * &v row {}: {:?} vs dense {:?}", i, p[i], sdd.to_c()));
            }
        }
    }

    // ---- determinant
    let det = match catch(|| t.det()) {
        Ok(d) => d,
        Err(e) => return Err(format!("det() panicked: {}", e)),
    };
    let exact_parts = (mat_exact(&a), sub.iter().map(|v| v.to_exact()).collect::<Option<Vec<_>>>(), main.iter().map(|v| v.to_exact()).collect::<Option<Vec<_>>>(), sup.iter().map(|v| v.to_exact()).collect::<Option<Vec<_>>>());
    let mut det_x = exact_parts.0.as_ref().map(|ax| refla::det_rank(ax).0);
    if crate::rat::overflowed() {
        if T::EXACT {
            return Ok(Outcome::Discard("rat-overflow"));
        }
        crate::rat::reset_overflow();
        det_x = None;
    }
    if let Some(dx) = &det_x {
        if T::EXACT {
            if det.to_exact().as_ref() != Some(dx) {
                return Err(format!("det = {:?}, exact determinant {:?}", det, dx));
            }
        } else {
            // running error bound of the three-term recurrence
            let mut g0 = 1.0f64;
            let mut g1 = refla::cabs(main[0].to_c());
            for j in 1..n {
                let g2 = refla::cabs(main[j].to_c()) * g1 + refla::cabs(sub[j - 1].to_c()) * refla::cabs(sup[j - 1].to_c()) * g0;
                g0 = g1;
                g1 = g2;
            }
            let err = refla::cabs(refla::csub(det.to_c(), T::x_to_c(dx)));
            let unit = n as f64 * EPS * g1;
            if unit > 0.0 {
                crate::calib::note("c05.det err/(n eps G)", err / unit, || format!("{} n={}", T::NAME, n));
            }
            if !(err <= DET_C * unit) {
                return Err(format!("det = {:?} differs from exact {:?} by {:.3e} > {:.3e}", det, T::x_to_c(dx), err, DET_C * unit));
            }
        }
    }

    // ---- solve: exact or refuses
    let bv = to_vector(&rhs);
    let res = catch(|| t.solve(&bv));
    let mut zero_pivot: Option<Option<usize>> = None; // Some(None): exact recurrence meets no zero pivot
    let mut recurrence_f64_exact = false;
    if let (_, Some(xs), Some(xm), Some(xp)) = &exact_parts {
        let mut all = Vec::new();
        let zp = thomas_zero_pivot(xs, xm, xp, &mut all);
        if crate::rat::overflowed() {
            if T::EXACT {
                return Ok(Outcome::Discard("rat-overflow"));
            }
            crate::rat::reset_overflow();
        } else {
            zero_pivot = Some(zp);
            // every intermediate of the recurrence is a small dyadic => the f64 recurrence is exact
            recurrence_f64_exact = !cont
                && all.iter().all(|v| {
                    let any: &dyn Any = v;
                    if let Some(r) = any.downcast_ref::<Rat>() {
                        small_exact(r)
                    } else if let Some(c) = any.downcast_ref::<refla::CR>() {
                        small_exact(&c.re) && small_exact(&c.im)
                    } else {
                        false
                    }
                });
        }
    }
    // strictly diagonally dominant float systems (at any scale): elimination meets no zero pivot, whatever the
    // exact oracle could or could not represent
    if !T::EXACT && flavor == 2 && zero_pivot.is_none() {
        zero_pivot = Some(None);
    }
    match (zero_pivot, T::EXACT || recurrence_f64_exact) {
        (Some(Some(step)), true) => {
            case.mark_nontrivial();
            case.class("refusal expected");
            match res {
                Ok(v) => return Err(format!("solve returned {:?} although elimination meets a zero pivot at step {}", v.vec, step)),
                Err(msg) => {
                    if !msg.to_lowercase().contains("zero") {
                        return Err(format!("solve refused with an unexpected message (zero pivot at step {}): {}", step, msg));
                    }
                }
            }
        }
        (Some(None), _) => {
            let xsol = match res {
                Ok(v) => v.vec,
                Err(e) => {
                    if T::EXACT || recurrence_f64_exact || flavor == 2 {
                        return Err(format!("solve panicked although elimination meets no zero pivot ({}): {}", if flavor == 2 { "strictly diagonally dominant system" } else { "exact recurrence" }, e));
                    }
                    case.class("float refusal not judged");
                    return Ok(Outcome::Pass);
                }
            };
            if xsol.len() != n {
                return Err(format!("solution length {}", xsol.len()));
            }
            if T::EXACT {
                case.class("solve exact");
                let ax = refla::matvec(&a, &xsol, z);
                if ax != rhs {
                    return Err(format!("solve: A*x != b exactly; x = {:?}, A*x = {:?}", xsol, ax));
                }
            } else if flavor == 2 {
                case.class("solve diag-dominant float");
                if !all_finite(&xsol) {
                    return Err(format!("solve returned non-finite {:?} on a diagonally dominant system", xsol));
                }
                let be = refla::backward_error(&mat_c(&a), &vec_c(&xsol), &vec_c(&rhs));
                crate::calib::note("c05.be/eps", be / EPS, || format!("{} n={}", T::NAME, n));
                if !(be <= DD_C * EPS) {
                    return Err(format!("solve: backward error {:.3e} > {:.3e} on a strictly diagonally dominant system; x = {:?}", be, DD_C * EPS, xsol));
                }
            } else if recurrence_f64_exact {
                case.class("solve float exact-recurrence");
                // pivots exact: the solution must satisfy the system to rounding of the substitutions only
                if all_finite(&xsol) {
                    let be = refla::backward_error(&mat_c(&a), &vec_c(&xsol), &vec_c(&rhs));
                    let growth = xsol.iter().map(|v| refla::cabs(v.to_c())).fold(1.0, f64::max);
                    let _ = growth;
                    crate::calib::note("c05.be-exactrec/eps", be / EPS, || format!("{} n={}", T::NAME, n));
                }
            } else {
                case.class("solve float not judged (no dominance)");
            }
        }
        _ => {
            case.class("solve not judged (oracle overflow or inexact float recurrence)");
        }
    }
    if bv.vec.iter().zip(&rhs).any(|(p, q)| !p.same(q)) {
        return Err("solve modified its right-hand side".into());
    }
    tri_eq(&t, &sub, &main, &sup, "matrix after product/det/solve")?;
    Ok(Outcome::Pass)
}

impl Prop for C05 {
    fn id(&self) -> &'static str {
        "C05"
    }
    fn rule(&self) -> String {
        "stream prefix (element type in {rat,f64,cmplx}, n in 1..=12): all 36 (type,n) pairs enumerated in every run with many random tails, plus random cases; \
         constructor in {new + index writes, with_elements, with_vecs, with_vectors}; diagonals from a zero-rich menu / plain small values / strictly diagonally dominant / continuous (floats). \
         Checked: index operator on the band and panics off it, diagonal accessors, convert(), transpose (both forms, involution), conj (cmplx), all arithmetic operators \
         and compound assignments, f64*T, resize, &T*&v and T*v vs the dense product, det vs the exact determinant, solve: the harness runs the Thomas recurrence exactly; \
         a zero pivot => the call must panic with a message containing 'zero' (rat always; floats only when every intermediate of the exact recurrence is a small dyadic, so the f64 recurrence is exact), \
         otherwise A x == b exactly (rat) / backward error bound on strictly diagonally dominant float systems. \
         Non-trivial: n <= 2, or a zero sub/super-diagonal entry, or an expected refusal. distinct = distinct decoded choice sequence."
            .into()
    }
    fn assumptions(&self) -> Vec<String> {
        vec![
            "exact oracle in i128 rationals / Gaussian rationals; overflowing rat cases discarded, float cases fall back to unjudged".into(),
            format!("diagonally dominant float systems: backward error <= {}*eps; determinant error <= {}*n*eps*G (G = recurrence on absolute values)", DD_C, DET_C),
            "no accuracy claim is asserted for float systems that are not diagonally dominant (the property makes none)".into(),
        ]
    }
    fn stream_len(&self, _tier: Tier) -> usize {
        360
    }
    fn random_cases(&self, tier: Tier) -> usize {
        tier.pick(100_000, 2_000_000)
    }
    fn enum_prefixes(&self, _tier: Tier) -> Vec<Vec<u32>> {
        let mut v = Vec::new();
        for ty in 0..3 {
            for n in 0..12 {
                v.push(vec![raw_for(ty, 3), raw_for(n, 12)]);
            }
        }
        v
    }
    fn enum_reps(&self, tier: Tier) -> usize {
        tier.pick(500, 5000)
    }
    fn enum_note(&self, _tier: Tier) -> Option<String> {
        Some("all (type, n) with n in 1..=12: 36 configurations; constructors, diagonal contents and vectors random per repetition".into())
    }
    fn run(&self, case: &mut Case) -> Outcome {
        let r = match case.src.below(3) {
            0 => run_t::<Rat>(case),
            1 => run_t::<f64>(case),
            _ => run_t::<Cmplx>(case),
        };
        match r {
            Ok(o) => o,
            Err(m) => Outcome::Fail(m),
        }
    }
}
