//! C01 — dense direct solvers (solve_basic, solve_lu) solve Ax = b.

use super::util::*;
use crate::engine::{catch, Case, Outcome, Prop, Tier};
use crate::gen::Elem;
use crate::rat::Rat;
use crate::refla::{self, M};
use crate::stream::Src;
use ohsl::Cmplx;

pub struct C01;

/// backward-error constant: bound = BE_C * n * eps * max(1, growth_ref).
/// Calibration on the pinned tree (200k systems, 3 seeds): worst observed ratio
/// be / (n eps max(1,rho)) = 0.75; 100 leaves > 100x head-room.
const BE_C: f64 = 100.0;

fn gen_rhs<T: Elem>(src: &mut Src, n: usize, cont: bool) -> Vec<T> {
    (0..n).map(|_| if cont { T::cont(src) } else { T::small(src) }).collect()
}

fn run_t<T: Elem>(case: &mut Case) -> Outcome {
    let nmax = if T::EXACT { 8 } else { case.tier.pick(8, 12) };
    let n = case.src.urange(1, nmax);
    let (base, kind) = gen_square::<T>(&mut case.src, n);
    let scaling = Scaling::gen::<T>(&mut case.src, n);
    let a = scaling.apply(&base);
    let mut b: Vec<T> = gen_rhs(&mut case.src, n, kind == "continuous");
    // right-hand sides of any scale: exact power of two 2^j, |j| <= 600 (for complex entries the modulus
    // sqrt(re^2 + im^2) of such a value under- or overflows although the value itself is perfectly fine)
    if case.src.below(4) == 0 {
        let j = case.src.small_int(600) as i32;
        b = b.iter().map(|v| v.scale2(j.clamp(-600, 600) / 2).scale2(j - j.clamp(-600, 600) / 2)).collect();
        case.class("rhs scaled by 2^j, |j| <= 600");
    }
    case.class(format!("{}:{}", T::NAME, kind));
    case.class(format!("n={}", n));

    // --- nonsingularity decided by the harness's own oracle
    let ac = mat_c(&a);
    let info = refla::gepp(&mat_c(&base), None);
    let mut kappa = f64::NAN;
    if T::EXACT {
        // exactness: a is Rat
    } else {
        match cond_inf(&mat_c(&base)) {
            Some(k) if k <= 1e10 => kappa = k * scaling.spread(),
            _ => return Outcome::Discard("ill-conditioned-or-singular"),
        }
    }
    // singular to working precision under the scaling actually applied: a pivot of the reference elimination of the
    // scaled matrix is smaller than 64 n times the rounding noise of its own computation (found by a thorough run:
    // entries 2^-36 next to 2^24 in the same rows are absorbed completely, the remaining 2x2 block is exactly
    // singular in double precision and every solver returns NaN)
    if !T::EXACT && !(refla::gepp(&ac, None).pivot_noise >= 64.0 * n as f64) {
        return Outcome::Discard("singular to working precision under the applied scaling");
    }

    // classification
    if n >= 3 {
        if let Some(k) = info.last_exchange_step {
            if k >= 1 {
                case.mark_nontrivial();
            }
            case.class(format!("last-exchange-step={}", k.min(6)));
        }
    }
    case.class(format!("exchanges={}", info.exchanges.min(5)));
    if !scaling.is_trivial() {
        case.class("scaled");
    }
    case.describe(|| format!("{} n={} kind={} A={} b={:?}", T::NAME, n, kind, crate::gen::fmt_mat(&a), b));

    let bv = to_vector(&b);
    let mut m1 = to_matrix(&a, n, n);
    let mut m2 = to_matrix(&a, n, n);
    let xb = catch(|| m1.solve_basic(&bv));
    let xl = catch(|| m2.solve_lu(&bv));
    if bv.vec != b {
        return Outcome::Fail("right-hand side operand was modified".into());
    }
    let (xb, xl) = match (xb, xl) {
        (Ok(x), Ok(y)) => (x.vec, y.vec),
        (Err(e), _) => return singular_or_fail::<T>(&a, format!("solve_basic panicked: {}", e)),
        (_, Err(e)) => return singular_or_fail::<T>(&a, format!("solve_lu panicked: {}", e)),
    };
    if xb.len() != n || xl.len() != n {
        return Outcome::Fail(format!("result length {} / {} != n = {}", xb.len(), xl.len(), n));
    }
    if T::EXACT {
        return Outcome::Fail("internal: exact path must use run_rat".into());
    }
    if !all_finite(&xb) || !all_finite(&xl) {
        return Outcome::Fail(format!("non-finite solution component: basic={:?} lu={:?}", xb, xl));
    }
    let bc = vec_c(&b);
    let bound = BE_C * n as f64 * EPS * info_growth(&ac).max(1.0);
    for (name, x) in [("solve_basic", &xb), ("solve_lu", &xl)] {
        let be = refla::backward_error(&ac, &vec_c(x), &bc);
        crate::calib::note("c01.be/(n eps max(1,rho))", be / (n as f64 * EPS * info_growth(&ac).max(1.0)), || format!("{} {} n={}", T::NAME, kind, n));
        if !(be <= bound) {
            return Outcome::Fail(format!("{}: normwise backward error {:.3e} > bound {:.3e} (x={:?})", name, be, bound, x));
        }
    }
    // agreement of the two solvers (forward error of each is <= kappa * backward error)
    let xc1 = vec_c(&xb);
    let xc2 = vec_c(&xl);
    let diff = xc1.iter().zip(&xc2).map(|(p, q)| refla::cabs(refla::csub(*p, *q))).fold(0.0, f64::max);
    let xn = refla::norm_inf_v(&xc1).max(refla::norm_inf_v(&xc2));
    let tol = 4.0 * kappa * bound * xn;
    if xn > 0.0 { crate::calib::note("c01.agree diff/(kappa n eps rho xn)", diff / (kappa * n as f64 * EPS * info_growth(&ac).max(1.0) * xn), || format!("{} {} n={}", T::NAME, kind, n)); }
    if !(diff <= tol) {
        return Outcome::Fail(format!("solvers disagree: |x_basic - x_lu| = {:.3e} > {:.3e} (kappa {:.2e})", diff, tol, kappa));
    }
    Outcome::Pass
}

/// x * 2^k with a single rounding (2f64.powi(k) itself under/overflows for |k| > 1023)
fn ldexp(x: f64, k: i32) -> f64 {
    let h = k / 2;
    x * 2f64.powi(h) * 2f64.powi(k - h)
}

/// underflow allowance constant: see `run_subnormal`
const UF_C: f64 = 32.0;

/// "Whatever the magnitudes": f64 systems whose entries are subnormal numbers.  A well-conditioned O(1) system
/// (A0, b0) is scaled exactly by powers of two, either as a whole (A = s A0, b = s b0, s = 2^-k, 1026 <= k <= 1040:
/// every entry, pivot and multiplier numerator is subnormal, the solution is unchanged) or by columns
/// (A = A0 D with d_j in {1, 2^-k}: all pivot candidates of those columns are subnormal, x_j = y_j / d_j is huge).
/// Judged on the exactly up-scaled system (A', b', y = D x), where Gaussian elimination's backward error is
/// invariant under such scaling except for underflow: every operation on subnormal operands adds an absolute error
/// of at most eta = 2^-1074, i.e. 2^(k-1074) relative to the scaled entries, so
///   be <= BE_C n eps rho  +  UF_C n^2 rho 2^(k-1074) (1 + |y|) / (|A'| |y| + |b'|).
fn run_subnormal(case: &mut Case) -> Outcome {
    let n = case.src.urange(1, 6);
    let (base, kind) = gen_square::<f64>(&mut case.src, n);
    let k = 1026 + case.src.below(15) as i32;
    let whole = case.src.coin();
    // which columns are scaled (column mode): at least one
    let mut cols: Vec<bool> = (0..n).map(|_| whole || case.src.below(3) == 0).collect();
    if !cols.iter().any(|c| *c) {
        let j = case.src.usize_below(n);
        cols[j] = true;
    }
    match cond_inf(&mat_c(&base)) {
        Some(c) if c <= 1e8 => {}
        _ => return Outcome::Discard("ill-conditioned-or-singular"),
    }
    let y0: Vec<f64> = (0..n).map(|j| f64::cont(&mut case.src) * if !whole && cols[j] { 2f64.powi(-20) } else { 1.0 }).collect();
    let b0: Vec<f64> = (0..n).map(|i| (0..n).map(|j| base[i][j] * y0[j]).sum::<f64>()).collect();
    // the system handed to the library
    let a: M<f64> = (0..n).map(|i| (0..n).map(|j| if cols[j] { ldexp(base[i][j], -k) } else { base[i][j] }).collect()).collect();
    let b: Vec<f64> = if whole { b0.iter().map(|v| ldexp(*v, -k)).collect() } else { b0.clone() };
    // ... and its exact up-scaled twin
    let a_up: M<f64> = (0..n).map(|i| (0..n).map(|j| if cols[j] { ldexp(a[i][j], k) } else { a[i][j] }).collect()).collect();
    let b_up: Vec<f64> = if whole { b.iter().map(|v| ldexp(*v, k)).collect() } else { b.clone() };
    case.class(format!("f64 subnormal {} ({})", if whole { "whole system" } else { "columns" }, kind));
    let ac = mat_c(&a_up);
    let info = refla::gepp(&ac, None);
    let kappa = match cond_inf(&ac) {
        Some(c) if c <= 1e8 => c,
        _ => return Outcome::Discard("ill-conditioned-or-singular"),
    };
    if n >= 2 {
        case.mark_nontrivial();
    }
    case.describe(|| format!("f64 subnormal n={} kind={} k={} whole={} cols={:?} A={:?} b={:?}", n, kind, k, whole, cols, a, b));
    let bv = to_vector(&b);
    let mut m1 = to_matrix(&a, n, n);
    let mut m2 = to_matrix(&a, n, n);
    let xb = catch(|| m1.solve_basic(&bv));
    let xl = catch(|| m2.solve_lu(&bv));
    let (xb, xl) = match (xb, xl) {
        (Ok(x), Ok(y)) => (x.vec, y.vec),
        (Err(e), _) => return Outcome::Fail(format!("solve_basic panicked on a nonsingular system with subnormal entries: {}", e)),
        (_, Err(e)) => return Outcome::Fail(format!("solve_lu panicked on a nonsingular system with subnormal entries: {}", e)),
    };
    if xb.len() != n || xl.len() != n {
        return Outcome::Fail(format!("result length {} / {} != n = {}", xb.len(), xl.len(), n));
    }
    if !all_finite(&xb) || !all_finite(&xl) {
        return Outcome::Fail(format!("non-finite solution component on a system whose exact solution is representable: basic={:?} lu={:?}", xb, xl));
    }
    let bc = vec_c(&b_up);
    let rho = info.growth.max(1.0);
    let mut ys: Vec<Vec<f64>> = vec![];
    for (name, x) in [("solve_basic", &xb), ("solve_lu", &xl)] {
        // y = D x (exact unless it leaves the normal range, which the generator excludes)
        let y: Vec<f64> = (0..n).map(|j| if !whole && cols[j] { ldexp(x[j], -k) } else { x[j] }).collect();
        let yc = vec_c(&y);
        let be = refla::backward_error(&ac, &yc, &bc);
        let yn = refla::norm_inf_v(&yc);
        let den = refla::norm_inf_m(&ac) * yn + refla::norm_inf_v(&bc);
        let uf = n as f64 * n as f64 * rho * ldexp(1.0, k - 1074) * (1.0 + yn) / den.max(1e-300);
        let bound = BE_C * n as f64 * EPS * rho + UF_C * uf;
        crate::calib::note("c01.subnormal (be - BE_C n eps rho)/uf", (be - BE_C * n as f64 * EPS * rho) / uf, || format!("{} n={} k={} whole={}", kind, n, k, whole));
        if !(be <= bound) {
            return Outcome::Fail(format!("{}: backward error {:.3e} on the exactly up-scaled system > bound {:.3e} (x={:?})", name, be, bound, x));
        }
        ys.push(y);
    }
    let diff = ys[0].iter().zip(&ys[1]).map(|(p, q)| (p - q).abs()).fold(0.0, f64::max);
    let yn = ys[0].iter().chain(&ys[1]).fold(0.0f64, |m, v| m.max(v.abs()));
    let tol = 8.0 * kappa * (BE_C * n as f64 * EPS * rho + UF_C * n as f64 * n as f64 * rho * ldexp(1.0, k - 1074)) * (1.0 + yn);
    if !(diff <= tol) {
        return Outcome::Fail(format!("solvers disagree on a subnormal system: |D(x_basic - x_lu)| = {:.3e} > {:.3e} (kappa {:.2e})", diff, tol, kappa));
    }
    Outcome::Pass
}

/// Orders beyond the small exhaustive range (the property is stated for every n >= 1) and matrices on which a pivoting
/// rule that is only *almost* partial pivoting lets element growth compound.
///  - "large": n in 13..=100, continuous random entries with a diagonal shift (well conditioned);
///  - "growth trap": n in 8..=28, unit diagonal (random signs), every entry below the diagonal of column j equal to
///    -c_j times the diagonal with 1.05 <= c_j <= 7.9, last column ones: with true partial pivoting the reference growth
///    stays small, with a thresholded or lazy exchange rule it grows like prod (1 + c_j).
/// Judged like every other float system: backward error <= BE_C n eps rho_ref, the two solvers agree.
fn run_large(case: &mut Case) -> Outcome {
    let trap = case.src.coin();
    let n = if trap { case.src.urange(8, 28) } else { case.src.urange(13, 100) };
    let mut a: M<f64> = vec![vec![0.0; n]; n];
    // bulk data from a splitmix64 sequence seeded by two stream values (a pure function of the stream)
    let mut sm: u64 = ((case.src.raw() as u64) << 32) | case.src.raw() as u64;
    let mut un = move || -> f64 {
        sm = sm.wrapping_add(0x9E3779B97F4A7C15);
        let mut z = sm;
        z = (z ^ (z >> 30)).wrapping_mul(0xBF58476D1CE4E5B9);
        z = (z ^ (z >> 27)).wrapping_mul(0x94D049BB133111EB);
        z ^= z >> 31;
        2.0 * ((z >> 11) as f64 / (1u64 << 53) as f64) - 1.0
    };
    if trap {
        let narrow = case.src.coin(); // all c_j below 2 (a rule with threshold 2) or up to 7.9
        for j in 0..n {
            let sgn = if un() < 0.0 { 1.0 } else { -1.0 };
            let u = 0.5 * (un() + 1.0);
            let c = if narrow { 1.05 + 0.93 * u } else { (1.05f64).max(7.9f64.powf(u)) };
            a[j][j] = sgn;
            for i in j + 1..n {
                a[i][j] = -c * sgn;
            }
            a[j][n - 1] = if j == n - 1 { sgn } else { 1.0 };
        }
    } else {
        let shift = case.src.f64_in(0.0, 1.0) * n as f64 * 0.25;
        for i in 0..n {
            for j in 0..n {
                a[i][j] = un();
            }
            a[i][i] += if un() < 0.0 { shift } else { -shift };
        }
    }
    let b: Vec<f64> = (0..n).map(|_| un()).collect();
    let ac = mat_c(&a);
    let info = refla::gepp(&ac, None);
    let kappa = match cond_inf(&ac) {
        Some(k) if k <= 1e10 => k,
        _ => return Outcome::Discard("ill-conditioned-or-singular"),
    };
    if !(info.pivot_noise >= 64.0 * n as f64) {
        return Outcome::Discard("singular to working precision under the applied scaling");
    }
    case.class(format!("f64 {} n in {}", if trap { "growth trap" } else { "large order" }, if n <= 28 { "8..=28" } else if n <= 64 { "29..=64" } else { "65..=100" }));
    case.mark_nontrivial();
    case.describe(|| format!("f64 {} n={} (reference growth {:.2e}, cond {:.2e}) first rows {:?} b[..4]={:?}", if trap { "growth trap" } else { "large order" }, n, info.growth, kappa, &a[..2.min(n)], &b[..4.min(n)]));
    let bv = to_vector(&b);
    let mut m1 = to_matrix(&a, n, n);
    let mut m2 = to_matrix(&a, n, n);
    let (xb, xl) = match (catch(|| m1.solve_basic(&bv)), catch(|| m2.solve_lu(&bv))) {
        (Ok(x), Ok(y)) => (x.vec, y.vec),
        (Err(e), _) => return Outcome::Fail(format!("solve_basic panicked on a nonsingular system of order {}: {}", n, e)),
        (_, Err(e)) => return Outcome::Fail(format!("solve_lu panicked on a nonsingular system of order {}: {}", n, e)),
    };
    if xb.len() != n || xl.len() != n {
        return Outcome::Fail(format!("result length {} / {} != n = {}", xb.len(), xl.len(), n));
    }
    if !all_finite(&xb) || !all_finite(&xl) {
        return Outcome::Fail(format!("non-finite solution component (order {})", n));
    }
    let bc = vec_c(&b);
    let unit = n as f64 * EPS * info.growth.max(1.0);
    for (name, x) in [("solve_basic", &xb), ("solve_lu", &xl)] {
        let be = refla::backward_error(&ac, &vec_c(x), &bc);
        crate::calib::note("c01.large be/(n eps max(1,rho))", be / unit, || format!("{} n={} trap={}", name, n, trap));
        if !(be <= BE_C * unit) {
            return Outcome::Fail(format!("{}: normwise backward error {:.3e} > bound {:.3e} at order {} (reference growth {:.2e}); x[..4] = {:?}", name, be, BE_C * unit, n, info.growth, &x[..4.min(n)]));
        }
    }
    let diff = xb.iter().zip(&xl).map(|(p, q)| (p - q).abs()).fold(0.0, f64::max);
    let xn = xb.iter().chain(&xl).fold(0.0f64, |m, v| m.max(v.abs()));
    if !(diff <= 4.0 * kappa * BE_C * unit * xn) {
        return Outcome::Fail(format!("solvers disagree at order {}: |x_basic - x_lu| = {:.3e} > {:.3e} (kappa {:.2e})", n, diff, 4.0 * kappa * BE_C * unit * xn, kappa));
    }
    Outcome::Pass
}

fn info_growth(ac: &M<refla::C>) -> f64 {
    refla::gepp(ac, None).growth
}

fn singular_or_fail<T: Elem>(_a: &M<T>, msg: String) -> Outcome {
    Outcome::Fail(msg)
}

fn run_rat(case: &mut Case) -> Outcome {
    type T = Rat;
    let n = case.src.urange(1, 8);
    let (a, kind) = gen_square::<T>(&mut case.src, n);
    let b: Vec<T> = gen_rhs(&mut case.src, n, false);
    case.class(format!("rat:{}", kind));
    case.class(format!("n={}", n));
    let (det, _rank) = refla::det_rank(&a);
    if crate::rat::overflowed() {
        return Outcome::Discard("rat-overflow");
    }
    if det.is_zero() {
        return Outcome::Discard("singular");
    }
    let info = refla::gepp(&mat_c(&a), None);
    if n >= 3 {
        if let Some(k) = info.last_exchange_step {
            if k >= 1 {
                case.mark_nontrivial();
            }
            case.class(format!("last-exchange-step={}", k.min(6)));
        }
    }
    case.class(format!("exchanges={}", info.exchanges.min(5)));
    case.describe(|| format!("rat n={} kind={} A={} b={:?}", n, kind, crate::gen::fmt_mat(&a), b));

    let bv = to_vector(&b);
    let mut m1 = to_matrix(&a, n, n);
    let mut m2 = to_matrix(&a, n, n);
    let xb = match catch(|| m1.solve_basic(&bv)) {
        Ok(x) => x.vec,
        Err(e) => return Outcome::Fail(format!("solve_basic panicked on a nonsingular system: {}", e)),
    };
    let xl = match catch(|| m2.solve_lu(&bv)) {
        Ok(x) => x.vec,
        Err(e) => return Outcome::Fail(format!("solve_lu panicked on a nonsingular system: {}", e)),
    };
    if xb.len() != n || xl.len() != n {
        return Outcome::Fail(format!("result length {} / {} != n = {}", xb.len(), xl.len(), n));
    }
    let z = Rat::int(0);
    for (name, x) in [("solve_basic", &xb), ("solve_lu", &xl)] {
        let ax = refla::matvec(&a, x, z);
        if ax != b {
            return Outcome::Fail(format!("{}: A*x != b exactly; x={:?} A*x={:?}", name, x, ax));
        }
    }
    if xb != xl {
        return Outcome::Fail(format!("solvers disagree: {:?} vs {:?}", xb, xl));
    }
    // metamorphic: permuting the rows of (A | b) leaves x unchanged
    let p = case.src.permutation(n);
    let ap = permute_rows(&a, &p);
    let bp: Vec<T> = p.iter().map(|&i| b[i]).collect();
    let mut m3 = to_matrix(&ap, n, n);
    let bpv = to_vector(&bp);
    let lu_first = case.src.coin();
    let xp = match catch(|| if lu_first { m3.solve_lu(&bpv) } else { m3.solve_basic(&bpv) }) {
        Ok(x) => x.vec,
        Err(e) => return Outcome::Fail(format!("solver panicked on a row permutation {:?} of a solvable system: {}", p, e)),
    };
    if xp != xb {
        return Outcome::Fail(format!("row permutation {:?} of (A|b) changed the solution: {:?} vs {:?}", p, xp, xb));
    }
    Outcome::Pass
}

impl Prop for C01 {
    fn id(&self) -> &'static str {
        "C01"
    }
    fn rule(&self) -> String {
        "random choice streams decode to (element type in {rat,f64,cmplx}, order n in 1..=8 (floats 1..=12 in the thorough tier), \
         matrix kind in {P*L*U, sparse+transversal, planted zero leading pivots, (permuted) triangular, scaled permutation, dense, \
         tiny leading pivots 2^-27..2^-46, continuous}, optional exact power-of-two row/column scaling 2^+-26, right-hand side, optionally scaled by 2^j with |j| <= 600); one f64 case in 16 is a subnormal system, one in 16 an order beyond the small range (13..=100, well conditioned) or a growth trap of order 8..=28 (unit diagonal, -c_j below it, 1.05 <= c_j <= 7.9, last column ones) \
         (whole system times 2^-k, or chosen columns times 2^-k, 1026 <= k <= 1040, n <= 6, judged on the exactly up-scaled twin with an explicit underflow allowance); \
         singular (rat: exact determinant 0) or ill-conditioned (float: reference cond > 1e10) systems are discarded and counted. \
         Non-trivial: n >= 3 and the reference partial-pivoting elimination performs its a row exchange at some step k >= 1; \
         distinct = distinct sequence of decoded choices."
            .into()
    }
    fn assumptions(&self) -> Vec<String> {
        vec![
            "exact rationals are i128 fractions; cases whose arithmetic overflows are discarded, not judged".into(),
            format!("float bound: backward error <= {}*n*eps*max(1,growth of the harness's reference GEPP); residuals evaluated in double-double", BE_C),
            "float systems are restricted to reference condition number <= 1e10 (before diagonal scaling)".into(),
            format!("subnormal systems: additional allowance {}*n^2*rho*2^(k-1074)*(1+|y|)/(|A'||y|+|b'|) for gradual underflow (absolute error 2^-1074 per operation); complex systems are not generated there (|z|^2 underflows, outside C13's magnitude range)", UF_C),
        ]
    }
    fn stream_len(&self, _tier: Tier) -> usize {
        400
    }
    fn random_cases(&self, tier: Tier) -> usize {
        tier.pick(200_000, 4_000_000)
    }
    fn run(&self, case: &mut Case) -> Outcome {
        match case.src.below(3) {
            0 => run_rat(case),
            1 => {
                match case.src.below(16) {
                    0 => run_subnormal(case),
                    1 => run_large(case),
                    _ => run_t::<f64>(case),
                }
            }
            _ => run_t::<Cmplx>(case),
        }
    }
}
