//! C18 — the finite-difference Jacobian is m x n and equals the difference quotients.

use super::util::EPS;
use crate::engine::{catch, Case, Outcome, Prop, Tier};
use crate::stream::raw_for;
use ohsl::{Cmplx, Mat64, Matrix, Vec64, Vector};
use std::cell::RefCell;

pub struct C18;

fn dyadic(src: &mut crate::stream::Src, bits: u32, range: i64) -> f64 {
    // multiple of 2^-bits in [-range, range]
    src.small_int(range * (1 << bits)) as f64 / (1u64 << bits) as f64
}

fn run(case: &mut Case) -> Result<Outcome, String> {
    let complex = case.src.coin();
    let m = 1 + case.src.usize_below(6);
    let n = 1 + case.src.usize_below(6);
    let affine = case.src.below(3) != 0;
    case.class(format!("{} {} {}", if complex { "cmplx" } else { "f64" }, if affine { "affine" } else { "nonlinear" }, if m < n { "m<n" } else if m > n { "m>n" } else { "m==n" }));
    if m != n {
        case.mark_nontrivial();
    }
    // delta = 2^-k (k = 4..=26) or 1e-8
    let dyadic_delta = affine || case.src.coin();
    let k = 4 + case.src.below(23) as i32;
    let delta = if dyadic_delta { 2f64.powi(-k) } else { 1e-8 };
    // dyadic matrix (multiples of 1/8, |.| <= 4), offsets and point (multiples of 1/16 in [-4,4])
    let mm: Vec<Vec<(f64, f64)>> = (0..m).map(|_| (0..n).map(|_| (dyadic(&mut case.src, 3, 4), if complex { dyadic(&mut case.src, 3, 4) } else { 0.0 })).collect()).collect();
    let cc: Vec<(f64, f64)> = (0..m).map(|_| (dyadic(&mut case.src, 3, 4), if complex { dyadic(&mut case.src, 3, 4) } else { 0.0 })).collect();
    let pt: Vec<(f64, f64)> = (0..n).map(|_| (dyadic(&mut case.src, 4, 4), if complex { dyadic(&mut case.src, 4, 4) } else { 0.0 })).collect();
    let kinds: Vec<u32> = (0..m).map(|_| case.src.below(3)).collect();
    // affine maps: every component may live at its own scale (exact power of two): the quotients stay exact.
    // 0 mostly; +-60; occasionally -600..-500 (for complex entries the modulus of such a value underflows)
    let row_scale: Vec<i32> = (0..m)
        .map(|_| if !affine { 0 } else { match case.src.below(6) { 0 | 1 | 2 => 0, 3 | 4 => case.src.small_int(60) as i32, _ => -(500 + case.src.below(100) as i32) } })
        .collect();
    let mm: Vec<Vec<(f64, f64)>> = mm.iter().enumerate().map(|(i, r)| r.iter().map(|v| (v.0 * 2f64.powi(row_scale[i]), v.1 * 2f64.powi(row_scale[i]))).collect()).collect();
    let cc: Vec<(f64, f64)> = cc.iter().enumerate().map(|(i, v)| (v.0 * 2f64.powi(row_scale[i]), v.1 * 2f64.powi(row_scale[i]))).collect();
    if row_scale.iter().any(|k| *k != 0) {
        case.class("affine map with per-component scales 2^k");
    }
    case.describe(|| format!("{} m={} n={} affine={} delta={:e} M={:?} c={:?} point={:?} kinds={:?}", if complex { "cmplx" } else { "f64" }, m, n, affine, delta, mm, cc, pt, kinds));

    if !complex {
        // f_i(x) = sum_j M_ij x_j + c_i   (+ nonlinear: smooth function of the affine form)
        let lin = |x: &[f64], i: usize| -> f64 { (0..n).map(|j| mm[i][j].0 * x[j]).sum::<f64>() + cc[i].0 };
        let nl = |k: u32, t: f64| -> (f64, f64, f64) {
            // value, first derivative, bound on |second derivative|
            match k {
                0 => (t.sin(), t.cos(), 1.0),
                1 => ((0.25 * t).exp(), 0.25 * (0.25 * t).exp(), 0.0625 * (0.25 * (t.abs() + 1.0)).exp()),
                _ => (t.atan(), 1.0 / (1.0 + t * t), 0.65),
            }
        };
        let calls: RefCell<Vec<Vec<f64>>> = RefCell::new(Vec::new());
        let func = |x: Vec64| -> Vec64 {
            calls.borrow_mut().push(x.vec.clone());
            Vector::create((0..m).map(|i| if affine { lin(&x.vec, i) } else { nl(kinds[i], lin(&x.vec, i)).0 }).collect())
        };
        let p: Vec<f64> = pt.iter().map(|z| z.0).collect();
        let j = match catch(|| Mat64::jacobian(Vector::create(p.clone()), &func, delta)) {
            Ok(j) => j,
            Err(e) => return Err(format!("Mat64::jacobian panicked for m = {}, n = {}: {}", m, n, e)),
        };
        if j.rows() != m || j.cols() != n {
            return Err(format!("Jacobian has shape {}x{}, expected {}x{}", j.rows(), j.cols(), m, n));
        }
        let calls = calls.borrow().clone();
        check_calls(&calls.iter().map(|c| c.iter().map(|v| (*v, 0.0)).collect()).collect::<Vec<Vec<(f64, f64)>>>(), &pt, delta, dyadic_delta)?;
        for i in 0..m {
            let t = lin(&p, i);
            for jj in 0..n {
                let got = j[(i, jj)];
                if affine {
                    if got != mm[i][jj].0 {
                        return Err(format!("affine map: J[({},{})] = {:e}, expected exactly {:e}", i, jj, got, mm[i][jj].0));
                    }
                } else {
                    let (fv, d1, d2) = nl(kinds[i], t);
                    let exact = d1 * mm[i][jj].0;
                    // forward difference: truncation <= 1/2 delta |f''| M_ij^2 (second derivative bounded on the segment), rounding 4 eps |f| / delta
                    let d2b = d2.max(nl(kinds[i], t + delta * mm[i][jj].0).2);
                    // rounding: the perturbed coordinate and the affine form are rounded (relative to amp = sum|M_ij||x_j| + |c_i|)
                    let amp: f64 = (0..n).map(|q| mm[i][q].0.abs() * (p[q].abs() + delta)).sum::<f64>() + cc[i].0.abs();
                    let d1b = 2.0 * d1.abs().max(nl(kinds[i], t + delta * mm[i][jj].0).1.abs()) + 1e-3;
                    let tol = 0.5 * delta * d2b * mm[i][jj].0 * mm[i][jj].0 * 1.01 + 4.0 * EPS * (fv.abs() + 1.0 + (n as f64 + 2.0) * d1b * amp) / delta + 4.0 * EPS * exact.abs();
                    if !((got - exact).abs() <= tol) {
                        return Err(format!("nonlinear map: J[({},{})] = {:e}, analytic derivative {:e}, |difference| {:e} > {:e}", i, jj, got, exact, (got - exact).abs(), tol));
                    }
                }
            }
        }
    } else {
        let lin = |x: &[Cmplx], i: usize| -> Cmplx {
            let mut s = Cmplx::new(cc[i].0, cc[i].1);
            for j in 0..n {
                s += Cmplx::new(mm[i][j].0, mm[i][j].1) * x[j];
            }
            s
        };
        let calls: RefCell<Vec<Vec<(f64, f64)>>> = RefCell::new(Vec::new());
        let func = |x: Vector<Cmplx>| -> Vector<Cmplx> {
            calls.borrow_mut().push(x.vec.iter().map(|z| (z.real, z.imag)).collect());
            Vector::create((0..m).map(|i| { let t = lin(&x.vec, i); if affine { t } else if kinds[i] == 0 { t * t * 0.125 } else { (t * 0.25).exp() } }).collect())
        };
        let p: Vec<Cmplx> = pt.iter().map(|z| Cmplx::new(z.0, z.1)).collect();
        let j = match catch(|| Matrix::<Cmplx>::jacobian_cmplx(Vector::create(p.clone()), &func, delta)) {
            Ok(j) => j,
            Err(e) => return Err(format!("jacobian_cmplx panicked for m = {}, n = {}: {}", m, n, e)),
        };
        if j.rows() != m || j.cols() != n {
            return Err(format!("Jacobian has shape {}x{}, expected {}x{}", j.rows(), j.cols(), m, n));
        }
        let calls = calls.borrow().clone();
        check_calls(&calls, &pt, delta, dyadic_delta)?;
        for i in 0..m {
            let t = lin(&p, i);
            for jj in 0..n {
                let got = j[(i, jj)];
                let mij = Cmplx::new(mm[i][jj].0, mm[i][jj].1);
                if affine {
                    if got.real != mij.real || got.imag != mij.imag {
                        return Err(format!("affine map: J[({},{})] = {:?}, expected exactly {:?}", i, jj, got, mij));
                    }
                } else {
                    let (fv, d1, d2b) = if kinds[i] == 0 { (t * t * 0.125, t * 0.25, 0.25) } else { let e = (t * 0.25).exp(); (e, e * 0.25, 0.0625 * (0.25 * (t.abs() + 1.0)).exp()) };
                    let exact = d1 * mij;
                    let amp: f64 = (0..n).map(|q| Cmplx::new(mm[i][q].0, mm[i][q].1).abs() * (p[q].abs() + delta)).sum::<f64>() + Cmplx::new(cc[i].0, cc[i].1).abs();
                    let d1b = 2.0 * d1.abs() + 2.0 * d2b * delta * mij.abs() + 1e-3;
                    let tol = 0.5 * delta * d2b * mij.abs_sqr() * 1.01 + 8.0 * EPS * (fv.abs() + 1.0 + (n as f64 + 2.0) * d1b * amp) / delta + 8.0 * EPS * exact.abs();
                    let err = (got - exact).abs();
                    if !(err <= tol) {
                        return Err(format!("nonlinear map: J[({},{})] = {:?}, analytic derivative {:?}, |difference| {:e} > {:e}", i, jj, got, exact, err, tol));
                    }
                }
            }
        }
    }
    Ok(Outcome::Pass)
}

/// the closure is called exactly n+1 times: at the base point, then at base + delta e_j for j = 0..n-1
/// with every other coordinate equal to the base (bitwise for dyadic steps, 2 ulp for 1e-8)
fn check_calls(calls: &[Vec<(f64, f64)>], pt: &[(f64, f64)], delta: f64, exact: bool) -> Result<(), String> {
    let n = pt.len();
    if calls.len() != n + 1 {
        return Err(format!("the map was evaluated {} times, expected n + 1 = {}", calls.len(), n + 1));
    }
    if calls[0].len() != n || calls[0].iter().zip(pt).any(|(a, b)| a.0.to_bits() != b.0.to_bits() || a.1.to_bits() != b.1.to_bits()) {
        return Err(format!("first evaluation at {:?}, expected the base point {:?}", calls[0], pt));
    }
    for j in 0..n {
        let c = &calls[j + 1];
        for k in 0..n {
            let expect = if k == j { (pt[k].0 + delta, pt[k].1) } else { pt[k] };
            let ok = if exact || k != j {
                if exact { c[k].0 == expect.0 && c[k].1 == expect.1 } else { (c[k].0 - expect.0).abs() <= 2.0 * EPS * expect.0.abs().max(delta) && c[k].1 == expect.1 }
            } else {
                (c[k].0 - expect.0).abs() <= 2.0 * EPS * expect.0.abs().max(delta) && c[k].1 == expect.1
            };
            if !ok {
                return Err(format!("evaluation {} (coordinate {} perturbed): coordinate {} is {:?}, expected {:?} (base {:?}, delta {:e})", j + 1, j, k, c[k], expect, pt[k], delta));
            }
        }
    }
    Ok(())
}

impl Prop for C18 {
    fn id(&self) -> &'static str {
        "C18"
    }
    fn rule(&self) -> String {
        "stream prefix (real/complex, m in 1..=6, n in 1..=6): all 72 combinations enumerated in every run with many random tails, plus random cases. 2/3 affine maps x -> Mx + c with dyadic entries (multiples of 1/8, |.| <= 4), \
         dyadic points (multiples of 1/16 in [-4,4]^n, complex: both parts), components scaled by individual powers of two (0, +-60 or -600..-500) and delta = 2^-k, k = 4..=26, so every operation is exact: the Jacobian must equal M exactly; 1/3 smooth nonlinear maps (sin, exp, atan / z^2, exp of an affine form) with delta = 2^-k or 1e-8: \
         |J_ij - df_i/dx_j| <= 1/2 delta max|f''| M_ij^2 + 4 eps (|f| + 1 + (n+2) |f'| (sum_j |M_ij||x_j| + |c_i|)) / delta (truncation + rounding of the perturbed argument and of the difference). Always: result has m rows and n columns; the map is evaluated exactly n+1 times, first at the base point, then at base + delta e_j for j = 0..n-1 with all other coordinates equal to the base \
         (bitwise for dyadic data, 2 ulp for 1e-8), i.e. each coordinate is restored before the next is perturbed. Non-trivial: m != n. distinct = distinct decoded choice sequence."
            .into()
    }
    fn assumptions(&self) -> Vec<String> {
        vec!["dyadic data keep every floating-point operation of the affine case exact, so equality is the correct oracle there".into()]
    }
    fn stream_len(&self, _tier: Tier) -> usize {
        160
    }
    fn random_cases(&self, tier: Tier) -> usize {
        tier.pick(300_000, 4_000_000)
    }
    fn enum_prefixes(&self, _tier: Tier) -> Vec<Vec<u32>> {
        let mut v = Vec::new();
        for c in 0..2 {
            for m in 0..6 {
                for n in 0..6 {
                    v.push(vec![raw_for(c, 2), raw_for(m, 6), raw_for(n, 6)]);
                }
            }
        }
        v
    }
    fn enum_reps(&self, tier: Tier) -> usize {
        tier.pick(1500, 20000)
    }
    fn enum_note(&self, _tier: Tier) -> Option<String> {
        Some("all (real/complex, m, n) with 1 <= m, n <= 6: 72 shape configurations; maps, points and steps random per repetition".into())
    }
    fn run(&self, case: &mut Case) -> Outcome {
        match run(case) {
            Ok(o) => o,
            Err(m) => Outcome::Fail(m),
        }
    }
}
