//! Helpers shared by the property modules: conversions between the reference
//! `Vec<Vec<_>>` model and ohsl's containers, and structured matrix generators.

use crate::gen::Elem;
use crate::refla::{self, C, M};
use crate::stream::Src;
use ohsl::{Matrix, Vector};

pub const EPS: f64 = f64::EPSILON;

pub fn to_matrix<T: Elem>(a: &M<T>, rows: usize, cols: usize) -> Matrix<T> {
    let mut m = Matrix::<T>::new(rows, cols, T::from_int(0));
    for i in 0..rows {
        for j in 0..cols {
            m[(i, j)] = a[i][j];
        }
    }
    m
}
pub fn from_matrix<T: Elem>(m: &Matrix<T>) -> M<T> {
    (0..m.rows()).map(|i| (0..m.cols()).map(|j| m[(i, j)]).collect()).collect()
}
pub fn to_vector<T: Clone>(v: &[T]) -> Vector<T> {
    Vector::create(v.to_vec())
}
pub fn mat_c<T: Elem>(a: &M<T>) -> M<C> {
    a.iter().map(|r| r.iter().map(|v| v.to_c()).collect()).collect()
}
pub fn vec_c<T: Elem>(v: &[T]) -> Vec<C> {
    v.iter().map(|x| x.to_c()).collect()
}
pub fn all_finite<T: Elem>(v: &[T]) -> bool {
    v.iter().all(|x| x.finite())
}

pub fn identity<T: Elem>(n: usize) -> M<T> {
    (0..n).map(|i| (0..n).map(|j| T::from_int((i == j) as i64)).collect()).collect()
}

pub fn permute_rows<T: Clone>(a: &M<T>, p: &[usize]) -> M<T> {
    p.iter().map(|&i| a[i].clone()).collect()
}

/// Kinds of nonsingular-by-construction (or probably nonsingular) square matrices
pub const KINDS: [&str; 8] = ["plu", "sparse", "planted-zero", "triangular", "perm-diag", "dense", "tiny-pivots", "continuous"];

/// Generate a square matrix of order n of the kind selected by the stream.
/// For float types the result may additionally be row/column scaled by exact
/// powers of two.  The caller decides nonsingularity with its own oracle.
pub fn gen_square<T: Elem>(src: &mut Src, n: usize) -> (M<T>, &'static str) {
    gen_square_k(src, n, if T::EXACT { 6 } else { 8 })
}
pub fn gen_square_k<T: Elem>(src: &mut Src, n: usize, nkinds: u32) -> (M<T>, &'static str) {
    let kind = KINDS[src.below(nkinds) as usize];
    let z = T::from_int(0);
    let mut a: M<T> = vec![vec![z; n]; n];
    match kind {
        "plu" => {
            let mut l = identity::<T>(n);
            let mut u: M<T> = vec![vec![z; n]; n];
            for i in 0..n {
                for j in 0..i {
                    l[i][j] = T::small(src);
                }
                u[i][i] = T::small_nz(src);
                for j in i + 1..n {
                    u[i][j] = T::small(src);
                }
            }
            let lu = refla::matmul(&l, &u, z, n);
            let p = src.permutation(n);
            a = permute_rows(&lu, &p);
        }
        "sparse" => {
            // a transversal guarantees structural nonsingularity; extra entries are sparse
            let p = src.permutation(n);
            for i in 0..n {
                a[i][p[i]] = T::small_nz(src);
            }
            let dens = 1 + src.below(4); // extra density 1/5 .. 4/5 of 30 %
            for i in 0..n {
                for j in 0..n {
                    if j != p[i] && src.below(10) < dens {
                        a[i][j] = T::small(src);
                    }
                }
            }
        }
        "planted-zero" => {
            for i in 0..n {
                for j in 0..n {
                    a[i][j] = T::small(src);
                }
            }
            // zero a leading block of the diagonal and some entries above it
            let k = 1 + src.usize_below(n);
            for i in 0..k.min(n) {
                a[i][i] = z;
                if i + 1 < n && src.coin() {
                    a[i][i + 1] = z;
                }
            }
        }
        "triangular" => {
            let upper = src.coin();
            for i in 0..n {
                for j in 0..n {
                    if i == j {
                        a[i][j] = T::small_nz(src);
                    } else if (j > i) == upper {
                        a[i][j] = T::small(src);
                    }
                }
            }
            if src.coin() {
                let p = src.permutation(n);
                a = permute_rows(&a, &p);
            }
        }
        "perm-diag" => {
            let p = src.permutation(n);
            for i in 0..n {
                a[i][p[i]] = T::small_nz(src);
            }
        }
        "dense" => {
            for i in 0..n {
                for j in 0..n {
                    a[i][j] = T::small_nz(src);
                }
            }
        }
        "tiny-pivots" => {
            // O(1) matrix whose leading candidates are tiny (2^-27 .. 2^-46) so that the
            // largest entry of a column sits in a lower row at chosen steps
            for i in 0..n {
                for j in 0..n {
                    a[i][j] = T::small_nz(src);
                }
            }
            let steps = 1 + src.usize_below(n);
            for _ in 0..steps {
                let k = src.usize_below(n);
                let big = src.usize_below(n); // row that keeps its O(1) entry in column k
                let sh = -(27 + src.below(20) as i32);
                for i in 0..n {
                    if i != big && src.below(4) != 0 {
                        a[i][k] = a[i][k].scale2(sh);
                    }
                }
            }
        }
        _ => {
            for i in 0..n {
                for j in 0..n {
                    a[i][j] = T::cont(src);
                }
            }
        }
    }
    (a, kind)
}

/// exact power-of-two row/column scalings (float types only): magnitudes 1e-8 .. 1e8
pub struct Scaling {
    pub rows: Vec<i32>,
    pub cols: Vec<i32>,
}
impl Scaling {
    pub fn none(n: usize) -> Scaling {
        Scaling { rows: vec![0; n], cols: vec![0; n] }
    }
    pub fn gen<T: Elem>(src: &mut Src, n: usize) -> Scaling {
        let mut s = Scaling::none(n);
        if !T::EXACT && src.below(3) == 0 {
            for i in 0..n {
                s.rows[i] = src.small_int(26) as i32;
            }
            if src.coin() {
                for j in 0..n {
                    s.cols[j] = src.small_int(26) as i32;
                }
            }
        }
        s
    }
    pub fn is_trivial(&self) -> bool {
        self.rows.iter().all(|k| *k == 0) && self.cols.iter().all(|k| *k == 0)
    }
    pub fn apply<T: Elem>(&self, a: &M<T>) -> M<T> {
        a.iter()
            .enumerate()
            .map(|(i, r)| r.iter().enumerate().map(|(j, v)| v.scale2(self.rows[i]).scale2(self.cols[j])).collect())
            .collect()
    }
    /// factor by which the condition number can grow
    pub fn spread(&self) -> f64 {
        let sp = |v: &Vec<i32>| {
            let mx = v.iter().copied().max().unwrap_or(0);
            let mn = v.iter().copied().min().unwrap_or(0);
            2f64.powi(mx - mn)
        };
        sp(&self.rows) * sp(&self.cols)
    }
}

/// condition number (inf-norm) from the reference inverse; None when numerically singular
pub fn cond_inf(a: &M<C>) -> Option<f64> {
    let inv = refla::inverse_c(a)?;
    let k = refla::norm_inf_m(a) * refla::norm_inf_m(&inv);
    if k.is_finite() {
        Some(k)
    } else {
        None
    }
}

pub fn mat_exact<T: Elem>(a: &M<T>) -> Option<M<T::X>> {
    a.iter().map(|r| r.iter().map(|v| v.to_exact()).collect::<Option<Vec<_>>>()).collect()
}
pub fn same_mat<T: Elem>(a: &M<T>, b: &M<T>) -> bool {
    a.len() == b.len() && a.iter().zip(b).all(|(r, s)| r.len() == s.len() && r.iter().zip(s).all(|(x, y)| x.same(y)))
}
/// product of the row 2-norms (Hadamard bound on |det|)
/// Determinant perturbation scale for Gaussian elimination with partial pivoting, whose backward error is
/// |dA_ij| <= c n eps rho max|a| for every entry (relative to the largest entry, *not* to the row it sits in):
/// |d det| <= sum_ij |dA_ij| |cofactor_ij| <= n^2 (c n eps rho max|a|) max_i prod_{k != i} ||row_k||_2.
/// Equals `hadamard` up to the factor max|a| / min_i ||row_i|| - i.e. the same for rows of similar size, larger
/// for badly row-scaled matrices (where elimination with partial pivoting is not row-wise stable).
pub fn hadamard_gepp(a: &M<C>) -> f64 {
    let norms: Vec<f64> = a.iter().map(|r| r.iter().map(|z| z.0 * z.0 + z.1 * z.1).sum::<f64>().sqrt()).collect();
    let amax = a.iter().flatten().map(|z| (z.0 * z.0 + z.1 * z.1).sqrt()).fold(0.0, f64::max);
    let mut best = 0.0f64;
    for i in 0..norms.len() {
        let p: f64 = norms.iter().enumerate().filter(|(k, _)| *k != i).map(|(_, v)| *v).product();
        best = best.max(p);
    }
    hadamard(a).max(amax * best)
}

pub fn hadamard(a: &M<C>) -> f64 {
    a.iter().map(|r| r.iter().map(|z| z.0 * z.0 + z.1 * z.1).sum::<f64>().sqrt()).product()
}
