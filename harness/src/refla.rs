//! Reference linear algebra on `Vec<Vec<_>>`, written independently of ohsl's
//! code paths: naive products, exact elimination over a field (rationals and
//! Gaussian rationals), f64/complex elimination with partial pivoting that
//! reports exchanges and growth, and double-double residuals.

use crate::dd::Cdd;
use crate::rat::Rat;
use core::ops::{Add, Mul, Sub};

pub type M<T> = Vec<Vec<T>>;
pub type C = (f64, f64);

pub fn dims<T>(a: &M<T>, cols_if_empty: usize) -> (usize, usize) {
    (a.len(), a.first().map(|r| r.len()).unwrap_or(cols_if_empty))
}

pub fn matmul<T: Copy + Add<Output = T> + Mul<Output = T>>(a: &M<T>, b: &M<T>, zero: T, bcols: usize) -> M<T> {
    let r = a.len();
    let k = b.len();
    let mut out = vec![vec![zero; bcols]; r];
    for i in 0..r {
        for j in 0..bcols {
            let mut s = zero;
            for l in 0..k {
                s = s + a[i][l] * b[l][j];
            }
            out[i][j] = s;
        }
    }
    out
}
pub fn matvec<T: Copy + Add<Output = T> + Mul<Output = T>>(a: &M<T>, x: &[T], zero: T) -> Vec<T> {
    a.iter()
        .map(|row| {
            let mut s = zero;
            for (j, v) in row.iter().enumerate() {
                s = s + *v * x[j];
            }
            s
        })
        .collect()
}
pub fn transpose<T: Copy>(a: &M<T>, cols: usize) -> M<T> {
    let mut t = vec![Vec::with_capacity(a.len()); cols];
    for row in a {
        for (j, v) in row.iter().enumerate() {
            t[j].push(*v);
        }
    }
    t
}

// ------------------------------------------------------------------ exact fields
pub trait Field: Copy + PartialEq + Add<Output = Self> + Sub<Output = Self> + Mul<Output = Self> + 'static {
    fn zero() -> Self;
    fn one() -> Self;
    fn is_zero(&self) -> bool;
    fn fdiv(self, o: Self) -> Self;
    fn fneg(self) -> Self;
}
impl Field for Rat {
    fn zero() -> Self {
        Rat::int(0)
    }
    fn one() -> Self {
        Rat::int(1)
    }
    fn is_zero(&self) -> bool {
        Rat::is_zero(self)
    }
    fn fdiv(self, o: Self) -> Self {
        self / o
    }
    fn fneg(self) -> Self {
        -self
    }
}

/// Gaussian rational
#[derive(Clone, Copy, PartialEq, Debug)]
pub struct CR {
    pub re: Rat,
    pub im: Rat,
}
impl CR {
    pub fn new(re: Rat, im: Rat) -> CR {
        CR { re, im }
    }
    pub fn to_c(&self) -> C {
        (self.re.to_f64(), self.im.to_f64())
    }
}
impl Add for CR {
    type Output = CR;
    fn add(self, o: CR) -> CR {
        CR { re: self.re + o.re, im: self.im + o.im }
    }
}
impl Sub for CR {
    type Output = CR;
    fn sub(self, o: CR) -> CR {
        CR { re: self.re - o.re, im: self.im - o.im }
    }
}
impl Mul for CR {
    type Output = CR;
    fn mul(self, o: CR) -> CR {
        CR { re: self.re * o.re - self.im * o.im, im: self.re * o.im + self.im * o.re }
    }
}
impl Field for CR {
    fn zero() -> Self {
        CR { re: Rat::int(0), im: Rat::int(0) }
    }
    fn one() -> Self {
        CR { re: Rat::int(1), im: Rat::int(0) }
    }
    fn is_zero(&self) -> bool {
        self.re.is_zero() && self.im.is_zero()
    }
    fn fdiv(self, o: Self) -> Self {
        let den = o.re * o.re + o.im * o.im;
        CR { re: (self.re * o.re + self.im * o.im) / den, im: (self.im * o.re - self.re * o.im) / den }
    }
    fn fneg(self) -> Self {
        CR { re: -self.re, im: -self.im }
    }
}

/// exact determinant and rank by fraction elimination (first non-zero pivot)
pub fn det_rank<F: Field>(a: &M<F>) -> (F, usize) {
    let n = a.len();
    let mut m = a.clone();
    let mut det = F::one();
    let mut rank = 0;
    let mut row = 0;
    for col in 0..n {
        let Some(p) = (row..n).find(|&i| !m[i][col].is_zero()) else {
            det = F::zero();
            continue;
        };
        if p != row {
            m.swap(p, row);
            det = det.fneg();
        }
        let piv = m[row][col];
        det = det * piv;
        for i in row + 1..n {
            if m[i][col].is_zero() {
                continue;
            }
            let f = m[i][col].fdiv(piv);
            for j in col..n {
                let t = m[row][j];
                m[i][j] = m[i][j] - f * t;
            }
        }
        row += 1;
        rank += 1;
    }
    if rank < n {
        det = F::zero();
    }
    (det, rank)
}

/// exact inverse by Gauss-Jordan; None when singular
pub fn inverse<F: Field>(a: &M<F>) -> Option<M<F>> {
    let n = a.len();
    let mut m: M<F> = a
        .iter()
        .enumerate()
        .map(|(i, r)| {
            let mut v = r.clone();
            for j in 0..n {
                v.push(if i == j { F::one() } else { F::zero() });
            }
            v
        })
        .collect();
    for col in 0..n {
        let p = (col..n).find(|&i| !m[i][col].is_zero())?;
        m.swap(p, col);
        let piv = m[col][col];
        for j in 0..2 * n {
            m[col][j] = m[col][j].fdiv(piv);
        }
        for i in 0..n {
            if i != col && !m[i][col].is_zero() {
                let f = m[i][col];
                for j in 0..2 * n {
                    let t = m[col][j];
                    m[i][j] = m[i][j] - f * t;
                }
            }
        }
    }
    Some(m.into_iter().map(|r| r[n..].to_vec()).collect())
}

/// exact solve; None when singular
pub fn solve_exact<F: Field>(a: &M<F>, b: &[F]) -> Option<Vec<F>> {
    let inv = inverse(a)?;
    Some(inv.iter().map(|r| r.iter().zip(b).fold(F::zero(), |s, (x, y)| s + *x * *y)).collect())
}

// ------------------------------------------------------------------ complex f64 helpers
#[inline]
pub fn cabs(z: C) -> f64 {
    z.0.hypot(z.1)
}
#[inline]
pub fn cmul(a: C, b: C) -> C {
    (a.0 * b.0 - a.1 * b.1, a.0 * b.1 + a.1 * b.0)
}
#[inline]
pub fn csub(a: C, b: C) -> C {
    (a.0 - b.0, a.1 - b.1)
}
#[inline]
pub fn cadd(a: C, b: C) -> C {
    (a.0 + b.0, a.1 + b.1)
}
/// Smith's division
pub fn cdiv(a: C, b: C) -> C {
    if b.0.abs() >= b.1.abs() {
        let r = b.1 / b.0;
        let d = b.0 + b.1 * r;
        ((a.0 + a.1 * r) / d, (a.1 - a.0 * r) / d)
    } else {
        let r = b.0 / b.1;
        let d = b.0 * r + b.1;
        ((a.0 * r + a.1) / d, (a.1 * r - a.0) / d)
    }
}

pub struct GeppInfo {
    pub exchanges: usize,
    pub first_exchange_step: Option<usize>,
    pub last_exchange_step: Option<usize>,
    /// max |u_ij| over the elimination / max |a_ij|
    pub growth: f64,
    /// smallest |pivot| / max|a|
    pub min_pivot_rel: f64,
    /// smallest |pivot| / (eps * running magnitude of the terms that formed it): a value of order 1 means the pivot
    /// is indistinguishable from the rounding noise of its own computation (matrix singular to working precision
    /// for this elimination order); 1/eps when the pivot is an original entry
    pub pivot_noise: f64,
    pub x: Option<Vec<C>>,
}

/// reference Gaussian elimination with partial pivoting (complex f64)
pub fn gepp(a: &M<C>, b: Option<&[C]>) -> GeppInfo {
    let n = a.len();
    let mut m = a.clone();
    let mut rhs: Vec<C> = b.map(|v| v.to_vec()).unwrap_or_else(|| vec![(0.0, 0.0); n]);
    let amax = a.iter().flatten().map(|z| cabs(*z)).fold(0.0, f64::max);
    let mut gmax = amax;
    let mut exchanges = 0;
    let mut first = None;
    let mut last = None;
    let mut minpiv = f64::INFINITY;
    // running error bound: mag[i][j] = |a_ij| + sum over the updates of |l_ik| |u_kj|
    let mut mag: Vec<Vec<f64>> = a.iter().map(|r| r.iter().map(|z| cabs(*z)).collect()).collect();
    let mut noise = f64::INFINITY;
    for k in 0..n {
        let mut p = k;
        let mut best = cabs(m[k][k]);
        for i in k + 1..n {
            let v = cabs(m[i][k]);
            if v > best {
                best = v;
                p = i;
            }
        }
        if p != k {
            m.swap(p, k);
            mag.swap(p, k);
            rhs.swap(p, k);
            exchanges += 1;
            if first.is_none() {
                first = Some(k);
            }
            last = Some(k);
        }
        minpiv = minpiv.min(best);
        if mag[k][k] > 0.0 {
            noise = noise.min(best / (f64::EPSILON * mag[k][k]));
        }
        if best == 0.0 {
            continue;
        }
        for i in k + 1..n {
            let f = cdiv(m[i][k], m[k][k]);
            for j in k..n {
                let t = cmul(f, m[k][j]);
                m[i][j] = csub(m[i][j], t);
                mag[i][j] += cabs(t);
                gmax = gmax.max(cabs(m[i][j]));
            }
            rhs[i] = csub(rhs[i], cmul(f, rhs[k]));
        }
    }
    let x = if b.is_some() && minpiv > 0.0 {
        let mut x = vec![(0.0, 0.0); n];
        for i in (0..n).rev() {
            let mut s = rhs[i];
            for j in i + 1..n {
                s = csub(s, cmul(m[i][j], x[j]));
            }
            x[i] = cdiv(s, m[i][i]);
        }
        Some(x)
    } else {
        None
    };
    GeppInfo {
        exchanges,
        first_exchange_step: first,
        last_exchange_step: last,
        growth: if amax > 0.0 { gmax / amax } else { 1.0 },
        min_pivot_rel: if amax > 0.0 { minpiv / amax } else { 0.0 },
        pivot_noise: noise,
        x,
    }
}

/// f64 inverse (complex) by Gauss-Jordan with partial pivoting; None when a pivot is zero
pub fn inverse_c(a: &M<C>) -> Option<M<C>> {
    let n = a.len();
    let mut m: M<C> = a
        .iter()
        .enumerate()
        .map(|(i, r)| {
            let mut v = r.clone();
            for j in 0..n {
                v.push(if i == j { (1.0, 0.0) } else { (0.0, 0.0) });
            }
            v
        })
        .collect();
    for col in 0..n {
        let mut p = col;
        for i in col + 1..n {
            if cabs(m[i][col]) > cabs(m[p][col]) {
                p = i;
            }
        }
        if cabs(m[p][col]) == 0.0 {
            return None;
        }
        m.swap(p, col);
        let piv = m[col][col];
        for j in 0..2 * n {
            m[col][j] = cdiv(m[col][j], piv);
        }
        for i in 0..n {
            if i != col {
                let f = m[i][col];
                if f != (0.0, 0.0) {
                    for j in 0..2 * n {
                        let t = cmul(f, m[col][j]);
                        m[i][j] = csub(m[i][j], t);
                    }
                }
            }
        }
    }
    Some(m.into_iter().map(|r| r[n..].to_vec()).collect())
}

pub fn norm_inf_m(a: &M<C>) -> f64 {
    a.iter().map(|r| r.iter().map(|z| cabs(*z)).sum::<f64>()).fold(0.0, f64::max)
}
pub fn norm_inf_v(x: &[C]) -> f64 {
    x.iter().map(|z| cabs(*z)).fold(0.0, f64::max)
}

/// residual b - A x in double-double, returned as max-norm
pub fn residual_inf(a: &M<C>, x: &[C], b: &[C]) -> f64 {
    let mut worst: f64 = 0.0;
    for (i, row) in a.iter().enumerate() {
        let mut s = Cdd::from(b[i]);
        for (j, v) in row.iter().enumerate() {
            s = s - Cdd::from(*v) * Cdd::from(x[j]);
        }
        let r = s.abs();
        if !(r <= worst) {
            worst = if r.is_nan() { f64::INFINITY } else { r.max(worst) };
        }
    }
    worst
}

/// normwise backward error  ||b - A x||_inf / (||A||_inf ||x||_inf + ||b||_inf)
pub fn backward_error(a: &M<C>, x: &[C], b: &[C]) -> f64 {
    let r = residual_inf(a, x, b);
    let den = norm_inf_m(a) * norm_inf_v(x) + norm_inf_v(b);
    if den == 0.0 {
        if r == 0.0 {
            0.0
        } else {
            f64::INFINITY
        }
    } else {
        r / den
    }
}

#[cfg(test)]
mod tests {
    use super::*;
    #[test]
    fn exact_det_inverse() {
        let r = |n: i64| Rat::int(n);
        let a = vec![vec![r(0), r(1), r(2)], vec![r(1), r(0), r(3)], vec![r(4), r(-3), r(8)]];
        let (d, rank) = det_rank(&a);
        assert_eq!(rank, 3);
        assert_eq!(d, r(-2));
        let inv = inverse(&a).unwrap();
        let id = matmul(&a, &inv, r(0), 3);
        for i in 0..3 {
            for j in 0..3 {
                assert_eq!(id[i][j], if i == j { r(1) } else { r(0) });
            }
        }
        let s = vec![vec![r(1), r(2)], vec![r(2), r(4)]];
        assert_eq!(det_rank(&s), (r(0), 1));
        assert!(inverse(&s).is_none());
    }
}
