//! Choice stream: every generated case is a pure function of a `&[u32]`.
//!
//! `below(n)` maps a raw choice monotonically onto `0..n`, so shrinking a raw
//! element towards 0 shrinks the decoded value towards the first (simplest)
//! alternative.  An exhausted stream yields 0 forever.

#[derive(Clone)]
pub struct Src<'a> {
    data: &'a [u32],
    pos: usize,
    hash: u64,
    draws: usize,
}

#[inline]
fn mix(h: u64, v: u64) -> u64 {
    let mut x = h ^ v.wrapping_mul(0x9E37_79B9_7F4A_7C15);
    x ^= x >> 32;
    x = x.wrapping_mul(0xD6E8_FEB8_6659_FD93);
    x ^= x >> 29;
    x
}

impl<'a> Src<'a> {
    pub fn new(data: &'a [u32]) -> Self {
        Src { data, pos: 0, hash: 0x1234_5678_9ABC_DEF0, draws: 0 }
    }
    #[inline]
    pub fn raw(&mut self) -> u32 {
        let v = self.data.get(self.pos).copied().unwrap_or(0);
        self.pos += 1;
        v
    }
    /// value in `0..n` (0 when `n <= 1`)
    #[inline]
    pub fn below(&mut self, n: u32) -> u32 {
        if n <= 1 {
            return 0;
        }
        let r = ((self.raw() as u64 * n as u64) >> 32) as u32;
        self.hash = mix(self.hash, ((n as u64) << 32) | r as u64);
        self.draws += 1;
        r
    }
    #[inline]
    pub fn usize_below(&mut self, n: usize) -> usize {
        self.below(n as u32) as usize
    }
    /// inclusive integer range
    #[inline]
    pub fn range(&mut self, lo: i64, hi: i64) -> i64 {
        debug_assert!(hi >= lo);
        lo + self.below((hi - lo + 1) as u32) as i64
    }
    #[inline]
    pub fn urange(&mut self, lo: usize, hi: usize) -> usize {
        lo + self.below((hi - lo + 1) as u32) as usize
    }
    #[inline]
    pub fn coin(&mut self) -> bool {
        self.below(2) == 1
    }
    /// true with probability num/den
    #[inline]
    pub fn chance(&mut self, num: u32, den: u32) -> bool {
        self.below(den) >= den - num
    }
    #[inline]
    pub fn pick<T: Copy>(&mut self, xs: &[T]) -> T {
        xs[self.below(xs.len() as u32) as usize]
    }
    /// uniform in [0,1) with 32 bits; recorded in the hash
    #[inline]
    pub fn unit(&mut self) -> f64 {
        let r = self.raw();
        self.hash = mix(self.hash, 0xFFFF_FFFF_0000_0000 | r as u64);
        self.draws += 1;
        r as f64 / 4294967296.0
    }
    #[inline]
    pub fn f64_in(&mut self, lo: f64, hi: f64) -> f64 {
        lo + (hi - lo) * self.unit()
    }
    /// signed small integer in -m..=m, 0 first then +-1, ...
    #[inline]
    pub fn small_int(&mut self, m: i64) -> i64 {
        let k = self.below((2 * m + 1) as u32) as i64;
        if k == 0 {
            0
        } else if k % 2 == 1 {
            (k + 1) / 2
        } else {
            -(k / 2)
        }
    }
    /// a permutation of 0..n (Fisher-Yates driven by the stream; all-zero stream = identity)
    pub fn permutation(&mut self, n: usize) -> Vec<usize> {
        let mut p: Vec<usize> = (0..n).collect();
        for i in 0..n.saturating_sub(1) {
            let j = i + self.usize_below(n - i);
            p.swap(i, j);
        }
        p
    }
    pub fn case_hash(&self) -> u64 {
        self.hash
    }
    pub fn draws(&self) -> usize {
        self.draws
    }
    pub fn consumed(&self) -> usize {
        self.pos
    }
}

/// raw value `r` such that `below(n)` returns `k`
pub fn raw_for(k: u32, n: u32) -> u32 {
    if n <= 1 {
        return 0;
    }
    let num = (k as u64) << 32;
    let r = (num + n as u64 - 1) / n as u64;
    r as u32
}

/// deterministic tail generator for enumerated configurations (splitmix64)
pub struct Tail(pub u64);
impl Tail {
    pub fn next_u32(&mut self) -> u32 {
        self.0 = self.0.wrapping_add(0x9E37_79B9_7F4A_7C15);
        let mut z = self.0;
        z = (z ^ (z >> 30)).wrapping_mul(0xBF58_476D_1CE4_E5B9);
        z = (z ^ (z >> 27)).wrapping_mul(0x94D0_49BB_1331_11EB);
        ((z ^ (z >> 31)) >> 32) as u32
    }
    pub fn fill(&mut self, prefix: &[u32], len: usize) -> Vec<u32> {
        let mut v = Vec::with_capacity(len.max(prefix.len()));
        v.extend_from_slice(prefix);
        while v.len() < len {
            v.push(self.next_u32());
        }
        v
    }
}

pub fn bytes_to_stream(bytes: &[u8]) -> Vec<u32> {
    bytes
        .chunks(4)
        .map(|c| {
            let mut b = [0u8; 4];
            b[..c.len()].copy_from_slice(c);
            u32::from_le_bytes(b)
        })
        .collect()
}

pub fn stream_to_bytes(s: &[u32]) -> Vec<u8> {
    s.iter().flat_map(|v| v.to_le_bytes()).collect()
}

#[cfg(test)]
mod tests {
    use super::*;
    #[test]
    fn raw_for_inverts_below() {
        for n in [2u32, 3, 7, 10, 385, 1000, 65536] {
            for k in 0..n.min(500) {
                let r = raw_for(k, n);
                let d = [r];
                let mut s = Src::new(&d);
                assert_eq!(s.below(n), k);
            }
        }
    }
}
