//! Double-double arithmetic (~106 bits) for judging f64 results, so that the
//! oracle's own rounding does not pollute the comparison; plus complex pairs.

use core::ops::{Add, Mul, Neg, Sub};

#[derive(Clone, Copy, Debug, PartialEq)]
pub struct Dd {
    pub hi: f64,
    pub lo: f64,
}

#[inline]
fn two_sum(a: f64, b: f64) -> (f64, f64) {
    let s = a + b;
    let bb = s - a;
    let e = (a - (s - bb)) + (b - bb);
    (s, e)
}
#[inline]
fn quick_two_sum(a: f64, b: f64) -> (f64, f64) {
    let s = a + b;
    (s, b - (s - a))
}
#[inline]
fn two_prod(a: f64, b: f64) -> (f64, f64) {
    let p = a * b;
    (p, a.mul_add(b, -p))
}

impl Dd {
    pub const ZERO: Dd = Dd { hi: 0.0, lo: 0.0 };
    #[inline]
    pub fn from(x: f64) -> Dd {
        Dd { hi: x, lo: 0.0 }
    }
    #[inline]
    pub fn prod(a: f64, b: f64) -> Dd {
        let (p, e) = two_prod(a, b);
        Dd { hi: p, lo: e }
    }
    #[inline]
    pub fn to_f64(self) -> f64 {
        self.hi + self.lo
    }
    #[inline]
    pub fn abs(self) -> Dd {
        if self.hi < 0.0 || (self.hi == 0.0 && self.lo < 0.0) {
            -self
        } else {
            self
        }
    }
    pub fn div(self, o: Dd) -> Dd {
        let q1 = self.hi / o.hi;
        let r = self - o * Dd::from(q1);
        let q2 = r.hi / o.hi;
        let r = r - o * Dd::from(q2);
        let q3 = r.hi / o.hi;
        let (s, e) = quick_two_sum(q1, q2);
        Dd { hi: s, lo: e } + Dd::from(q3)
    }
    pub fn sqrt(self) -> Dd {
        if self.hi <= 0.0 {
            return Dd::ZERO;
        }
        let x = self.hi.sqrt();
        // one Newton step: x + (a - x^2)/(2x)
        let r = self - Dd::prod(x, x);
        Dd::from(x) + Dd::from(r.hi / (2.0 * x))
    }
    pub fn is_finite(self) -> bool {
        self.hi.is_finite() && self.lo.is_finite()
    }
}
impl Add for Dd {
    type Output = Dd;
    #[inline]
    fn add(self, o: Dd) -> Dd {
        let (s, e) = two_sum(self.hi, o.hi);
        let (t, f) = two_sum(self.lo, o.lo);
        let (s, e) = quick_two_sum(s, e + t);
        let (s, e) = quick_two_sum(s, e + f);
        Dd { hi: s, lo: e }
    }
}
impl Neg for Dd {
    type Output = Dd;
    #[inline]
    fn neg(self) -> Dd {
        Dd { hi: -self.hi, lo: -self.lo }
    }
}
impl Sub for Dd {
    type Output = Dd;
    #[inline]
    fn sub(self, o: Dd) -> Dd {
        self + (-o)
    }
}
impl Mul for Dd {
    type Output = Dd;
    #[inline]
    fn mul(self, o: Dd) -> Dd {
        let (p, e) = two_prod(self.hi, o.hi);
        let e = e + (self.hi * o.lo + self.lo * o.hi);
        let (s, e) = quick_two_sum(p, e);
        Dd { hi: s, lo: e }
    }
}

/// complex double-double
#[derive(Clone, Copy, Debug)]
pub struct Cdd {
    pub re: Dd,
    pub im: Dd,
}
impl Cdd {
    pub const ZERO: Cdd = Cdd { re: Dd::ZERO, im: Dd::ZERO };
    #[inline]
    pub fn from(z: (f64, f64)) -> Cdd {
        Cdd { re: Dd::from(z.0), im: Dd::from(z.1) }
    }
    #[inline]
    pub fn to_c(self) -> (f64, f64) {
        (self.re.to_f64(), self.im.to_f64())
    }
    /// |z| as f64 (hypot of the rounded parts; relative error ~1e-16)
    #[inline]
    pub fn abs(self) -> f64 {
        self.re.to_f64().hypot(self.im.to_f64())
    }
    pub fn div(self, o: Cdd) -> Cdd {
        let den = o.re * o.re + o.im * o.im;
        let re = (self.re * o.re + self.im * o.im).div(den);
        let im = (self.im * o.re - self.re * o.im).div(den);
        Cdd { re, im }
    }
}
impl Add for Cdd {
    type Output = Cdd;
    #[inline]
    fn add(self, o: Cdd) -> Cdd {
        Cdd { re: self.re + o.re, im: self.im + o.im }
    }
}
impl Sub for Cdd {
    type Output = Cdd;
    #[inline]
    fn sub(self, o: Cdd) -> Cdd {
        Cdd { re: self.re - o.re, im: self.im - o.im }
    }
}
impl Neg for Cdd {
    type Output = Cdd;
    #[inline]
    fn neg(self) -> Cdd {
        Cdd { re: -self.re, im: -self.im }
    }
}
impl Mul for Cdd {
    type Output = Cdd;
    #[inline]
    fn mul(self, o: Cdd) -> Cdd {
        Cdd { re: self.re * o.re - self.im * o.im, im: self.re * o.im + self.im * o.re }
    }
}

#[cfg(test)]
mod tests {
    use super::*;
    #[test]
    fn dd_basics() {
        let a = Dd::from(1.0) + Dd::from(1e-20);
        let b = a - Dd::from(1.0);
        assert_eq!(b.to_f64(), 1e-20);
        let p = Dd::prod(1.0 + 2f64.powi(-30), 1.0 + 2f64.powi(-30));
        let q = p - Dd::from(1.0) - Dd::from(2f64.powi(-29));
        assert_eq!(q.to_f64(), 2f64.powi(-60));
        let t = Dd::from(1.0).div(Dd::from(3.0));
        let back = t * Dd::from(3.0) - Dd::from(1.0);
        assert!(back.to_f64().abs() < 1e-30);
        let s = Dd::from(2.0).sqrt();
        let e = s * s - Dd::from(2.0);
        assert!(e.to_f64().abs() < 1e-30);
    }
}
