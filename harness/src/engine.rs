//! Engine: runs a property's decode+check over (1) the regression corpus,
//! (2) enumerated configurations with seeded random tails, (3) proptest-driven
//! random choice streams (sharded over threads), collects coverage statistics,
//! shrinks failures, writes replay and evidence files.

use crate::findings::Findings;
use crate::stream::{Src, Tail};
use proptest::collection::vec as pvec;
use proptest::prelude::any;
use proptest::test_runner::{Config, RngSeed, TestCaseError, TestError, TestRunner};
use serde_json::{json, Value};
use std::cell::{Cell, RefCell};
use std::collections::{BTreeMap, HashSet};
use std::sync::atomic::{AtomicBool, AtomicU64, Ordering};
use std::sync::{Arc, Mutex};
use std::time::Instant;

#[derive(Clone, Copy, PartialEq, Eq, Debug)]
pub enum Tier {
    Quick,
    Thorough,
}
impl Tier {
    pub fn name(self) -> &'static str {
        match self {
            Tier::Quick => "quick",
            Tier::Thorough => "thorough",
        }
    }
    pub fn pick<T>(self, q: T, t: T) -> T {
        match self {
            Tier::Quick => q,
            Tier::Thorough => t,
        }
    }
}

pub enum Outcome {
    Pass,
    /// case outside the judged domain (reason is counted)
    Discard(&'static str),
    /// failing case that matches the input-level signature of a known finding
    Known(&'static str, String),
    Fail(String),
}

/// Per-case context handed to a property's `run`.
pub struct Case<'a> {
    pub src: Src<'a>,
    pub tier: Tier,
    pub rendering: bool,
    pub nontrivial: bool,
    pub classes: Vec<String>,
    pub render: Option<String>,
    pub findings: &'a Findings,
}
impl<'a> Case<'a> {
    pub fn new(stream: &'a [u32], tier: Tier, rendering: bool, findings: &'a Findings) -> Self {
        Case {
            src: Src::new(stream),
            tier,
            rendering,
            nontrivial: false,
            classes: Vec::new(),
            render: None,
            findings,
        }
    }
    #[inline]
    pub fn class(&mut self, c: impl Into<String>) {
        self.classes.push(c.into());
    }
    #[inline]
    pub fn mark_nontrivial(&mut self) {
        self.nontrivial = true;
    }
    /// record a human-readable rendering of the case (evaluated only when wanted)
    #[inline]
    pub fn describe(&mut self, f: impl FnOnce() -> String) {
        if self.rendering {
            self.render = Some(f());
        }
    }
}

pub trait Prop: Send + Sync {
    fn id(&self) -> &'static str;
    /// how cases are generated and what makes one non-trivial / distinct
    fn rule(&self) -> String;
    fn assumptions(&self) -> Vec<String>;
    fn stream_len(&self, _tier: Tier) -> usize {
        256
    }
    fn random_cases(&self, tier: Tier) -> usize;
    /// forced stream prefixes enumerating a finite configuration space
    fn enum_prefixes(&self, _tier: Tier) -> Vec<Vec<u32>> {
        Vec::new()
    }
    /// random tails per enumerated configuration
    fn enum_reps(&self, _tier: Tier) -> usize {
        1
    }
    /// description of the enumerated space (goes into the evidence)
    fn enum_note(&self, _tier: Tier) -> Option<String> {
        None
    }
    /// false for properties whose cases must not run concurrently
    fn parallel(&self) -> bool {
        true
    }
    fn run(&self, case: &mut Case) -> Outcome;
}

#[derive(Default)]
pub struct Stats {
    pub evaluations: u64,
    pub nontrivial: u64,
    pub distinct: HashSet<u64>,
    pub classes: BTreeMap<String, u64>,
    pub discards: BTreeMap<String, u64>,
    pub known: BTreeMap<String, (u64, String)>,
    pub samples: Vec<String>,
    pub enum_cfgs: u64,
}
impl Stats {
    fn merge(&mut self, o: Stats) {
        self.evaluations += o.evaluations;
        self.nontrivial += o.nontrivial;
        self.distinct.extend(o.distinct);
        for (k, v) in o.classes {
            *self.classes.entry(k).or_default() += v;
        }
        for (k, v) in o.discards {
            *self.discards.entry(k).or_default() += v;
        }
        for (k, (n, ex)) in o.known {
            let e = self.known.entry(k).or_insert((0, ex));
            e.0 += n;
        }
        for s in o.samples {
            if self.samples.len() < 10 {
                self.samples.push(s);
            }
        }
        self.enum_cfgs += o.enum_cfgs;
    }
    fn absorb(&mut self, case: &mut CaseInfo, out: &Outcome) {
        self.evaluations += 1;
        match out {
            Outcome::Discard(r) => {
                *self.discards.entry((*r).to_string()).or_default() += 1;
                return;
            }
            Outcome::Known(k, what) => {
                let e = self.known.entry((*k).to_string()).or_insert((0, what.clone()));
                e.0 += 1;
            }
            _ => {}
        }
        for c in case.classes.drain(..) {
            *self.classes.entry(c).or_default() += 1;
        }
        if case.nontrivial {
            self.nontrivial += 1;
            let fresh = self.distinct.insert(case.hash);
            if fresh && self.samples.len() < 8 {
                if let Some(r) = case.render.take() {
                    self.samples.push(r);
                }
            }
        }
    }
}

pub struct Failure {
    pub engine: &'static str,
    pub stream: Vec<u32>,
    pub message: String,
    pub rendered: String,
}

// ---------------------------------------------------------------- panic capture
thread_local! {
    static LAST_PANIC: RefCell<Option<String>> = const { RefCell::new(None) };
}

pub fn install_panic_hook() {
    std::panic::set_hook(Box::new(|info| {
        let msg = if let Some(s) = info.payload().downcast_ref::<&str>() {
            (*s).to_string()
        } else if let Some(s) = info.payload().downcast_ref::<String>() {
            s.clone()
        } else {
            "<non-string panic>".to_string()
        };
        let loc = info.location().map(|l| format!(" @ {}:{}", l.file(), l.line())).unwrap_or_default();
        LAST_PANIC.with(|p| *p.borrow_mut() = Some(format!("{}{}", msg, loc)));
    }));
}

/// run `f`, turning a panic into `Err(message @ location)`
pub fn catch<T>(f: impl FnOnce() -> T) -> Result<T, String> {
    match std::panic::catch_unwind(std::panic::AssertUnwindSafe(f)) {
        Ok(v) => Ok(v),
        Err(_) => Err(LAST_PANIC.with(|p| p.borrow_mut().take()).unwrap_or_else(|| "<panic>".into())),
    }
}

// ---------------------------------------------------------------- watchdog
pub struct Beat {
    started_ms: AtomicU64,
    stream: Mutex<Vec<u32>>,
}
static EPOCH: std::sync::OnceLock<Instant> = std::sync::OnceLock::new();
fn now_ms() -> u64 {
    EPOCH.get_or_init(Instant::now).elapsed().as_millis() as u64 + 1
}
pub static BEATS: Mutex<Vec<Arc<Beat>>> = Mutex::new(Vec::new());
pub static WATCHDOG_LIMIT_MS: AtomicU64 = AtomicU64::new(120_000);

fn new_beat() -> Arc<Beat> {
    let b = Arc::new(Beat { started_ms: AtomicU64::new(0), stream: Mutex::new(Vec::new()) });
    BEATS.lock().unwrap().push(b.clone());
    b
}
impl Beat {
    #[inline]
    fn begin(&self, s: &[u32]) {
        {
            let mut g = self.stream.lock().unwrap();
            g.clear();
            g.extend_from_slice(s);
        }
        self.started_ms.store(now_ms(), Ordering::Relaxed);
    }
    #[inline]
    fn end(&self) {
        self.started_ms.store(0, Ordering::Relaxed);
    }
}

pub fn spawn_watchdog(prop_id: &'static str) {
    std::thread::spawn(move || loop {
        std::thread::sleep(std::time::Duration::from_millis(1000));
        let now = now_ms();
        let limit = WATCHDOG_LIMIT_MS.load(Ordering::Relaxed);
        let beats = BEATS.lock().unwrap().clone();
        for b in beats {
            let st = b.started_ms.load(Ordering::Relaxed);
            if st != 0 && now.saturating_sub(st) > limit {
                let s = b.stream.lock().unwrap().clone();
                let path = format!("{}/replays/{}-watchdog.json", crate::verif_dir(), prop_id);
                let _ = std::fs::create_dir_all(format!("{}/replays", crate::verif_dir()));
                let _ = std::fs::write(
                    &path,
                    serde_json::to_string(&json!({"property": prop_id, "engine": "watchdog", "stream": s,
                        "message": "case exceeded the watchdog limit (inconclusive, not a violation)"}))
                    .unwrap(),
                );
                crate::out(&format!(
                    "INCONCLUSIVE property={} a single case ran longer than {} s (stream saved to {})",
                    prop_id,
                    limit / 1000,
                    path
                ));
                std::process::exit(2);
            }
        }
    });
}

// ---------------------------------------------------------------- single case
/// decode + check one stream; unexpected panics of the harness/library outside a
/// property's own `catch` become failures.
pub struct CaseInfo {
    pub nontrivial: bool,
    pub classes: Vec<String>,
    pub render: Option<String>,
    pub hash: u64,
}

pub fn run_one(prop: &dyn Prop, stream: &[u32], tier: Tier, rendering: bool, findings: &Findings) -> (Outcome, CaseInfo) {
    crate::rat::reset_overflow();
    let mut case = Case::new(stream, tier, rendering, findings);
    let out = match catch(|| prop.run(&mut case)) {
        Ok(o) => o,
        Err(msg) => {
            if crate::rat::overflowed() {
                Outcome::Discard("rat-overflow")
            } else {
                Outcome::Fail(format!("unexpected panic: {}", msg))
            }
        }
    };
    let out = match out {
        Outcome::Fail(_) | Outcome::Known(..) if crate::rat::overflowed() => Outcome::Discard("rat-overflow"),
        o => o,
    };
    if case.src.consumed() > stream.len() && stream.len() >= prop.stream_len(tier) {
        // the decoder wanted more choices than a full-length stream holds (the rest decodes as zeros)
        case.class("choice stream exhausted");
    }
    let out = match out {
        Outcome::Fail(m) if std::env::var("VERIF_NOFAIL").is_ok() => {
            crate::calib::note("NOFAIL (failures turned into discards)", 1.0, || m.chars().take(300).collect());
            Outcome::Discard("nofail-survey")
        }
        o => o,
    };
    if let Outcome::Known(k, _) = &out {
        if let Ok(dir) = std::env::var("VERIF_DUMP_KNOWN") {
            static DUMPED: AtomicU64 = AtomicU64::new(0);
            let n = DUMPED.fetch_add(1, Ordering::Relaxed);
            if n < 40 {
                let mut sm = stream.to_vec();
                sm.truncate(case.src.consumed().min(sm.len()));
                let _ = std::fs::create_dir_all(&dir);
                let _ = std::fs::write(
                    format!("{}/{}-{}-{}.json", dir, prop.id(), k, n),
                    serde_json::to_string(&json!({"property": prop.id(), "engine": "known-finding-dump", "tier": tier.name(), "stream": sm, "message": k})).unwrap(),
                );
            }
        }
    }
    let info = CaseInfo {
        nontrivial: case.nontrivial,
        classes: std::mem::take(&mut case.classes),
        render: case.render.take(),
        hash: case.src.case_hash(),
    };
    (out, info)
}

fn render_failure(prop: &dyn Prop, stream: &[u32], tier: Tier, findings: &Findings) -> (String, String) {
    let (out, case) = run_one(prop, stream, tier, true, findings);
    let msg = match out {
        Outcome::Fail(m) => m,
        Outcome::Known(k, w) => format!("known finding {}: {}", k, w),
        Outcome::Pass => "passes on re-run (non-deterministic?)".into(),
        Outcome::Discard(r) => format!("discarded on re-run ({})", r),
    };
    (msg, case.render.unwrap_or_else(|| "<no rendering>".into()))
}

/// greedy element-wise shrinker for streams found outside proptest
pub fn shrink_stream(prop: &dyn Prop, stream: &[u32], fixed_prefix: usize, tier: Tier, findings: &Findings) -> Vec<u32> {
    let fails = |s: &[u32]| matches!(run_one(prop, s, tier, false, findings).0, Outcome::Fail(_));
    let mut cur = stream.to_vec();
    if !fails(&cur) {
        return cur;
    }
    // cut the tail
    while cur.len() > fixed_prefix {
        let mut t = cur.clone();
        let keep = fixed_prefix.max(t.len() / 2);
        t.truncate(keep);
        if t.len() < cur.len() && fails(&t) {
            cur = t;
        } else {
            break;
        }
    }
    let mut budget = 6000usize;
    let mut progress = true;
    while progress && budget > 0 {
        progress = false;
        for i in fixed_prefix..cur.len() {
            if cur[i] == 0 {
                continue;
            }
            let orig = cur[i];
            // try 0, then binary search towards the smallest failing value
            cur[i] = 0;
            budget = budget.saturating_sub(1);
            if fails(&cur) {
                progress = true;
                continue;
            }
            let (mut lo, mut hi) = (0u32, orig);
            // invariant: hi fails, lo passes
            while hi - lo > 1 && budget > 0 {
                let mid = lo + (hi - lo) / 2;
                cur[i] = mid;
                budget -= 1;
                if fails(&cur) {
                    hi = mid;
                } else {
                    lo = mid;
                }
            }
            cur[i] = hi;
            if hi != orig {
                progress = true;
            }
            if budget == 0 {
                break;
            }
        }
    }
    while cur.len() > fixed_prefix && *cur.last().unwrap() == 0 {
        cur.pop();
    }
    cur
}

// ---------------------------------------------------------------- stages
fn seed_for(seed: u64, id: &str, salt: u64) -> u64 {
    let mut h: u64 = 0xcbf29ce484222325 ^ seed.wrapping_mul(0x100000001b3);
    for b in id.bytes() {
        h = (h ^ b as u64).wrapping_mul(0x100000001b3);
    }
    h ^= salt.wrapping_mul(0x9E37_79B9_7F4A_7C15);
    h ^= h >> 31;
    h.wrapping_mul(0xD6E8_FEB8_6659_FD93)
}

fn enum_stage(prop: &dyn Prop, tier: Tier, seed: u64, findings: &Findings, threads: usize, stop: &AtomicBool) -> (Stats, Option<Failure>) {
    let prefixes = prop.enum_prefixes(tier);
    if prefixes.is_empty() {
        return (Stats::default(), None);
    }
    let reps = prop.enum_reps(tier).max(1);
    let len = prop.stream_len(tier);
    let next = AtomicU64::new(0);
    let total = prefixes.len() as u64;
    let results: Mutex<(Stats, Option<Failure>)> = Mutex::new((Stats::default(), None));
    std::thread::scope(|sc| {
        for _ in 0..threads {
            sc.spawn(|| {
                let beat = new_beat();
                let mut st = Stats::default();
                let mut fail: Option<Failure> = None;
                loop {
                    if stop.load(Ordering::Relaxed) {
                        break;
                    }
                    let i = next.fetch_add(1, Ordering::Relaxed);
                    if i >= total {
                        break;
                    }
                    let pre = &prefixes[i as usize];
                    st.enum_cfgs += 1;
                    for rep in 0..reps {
                        let mut tail = Tail(seed_for(seed, prop.id(), (i << 16) ^ rep as u64 ^ 0xE0E0));
                        let stream = tail.fill(pre, len);
                        beat.begin(&stream);
                        let rendering = st.samples.len() < 3 && rep == 0;
                        let (out, mut case) = run_one(prop, &stream, tier, rendering, findings);
                        beat.end();
                        if let Outcome::Fail(_) = &out {
                            stop.store(true, Ordering::Relaxed);
                            let small = shrink_stream(prop, &stream, pre.len(), tier, findings);
                            let (msg, rendered) = render_failure(prop, &small, tier, findings);
                            fail = Some(Failure { engine: "enumeration", stream: small, message: msg, rendered });
                            break;
                        }
                        st.absorb(&mut case, &out);
                    }
                    if fail.is_some() {
                        break;
                    }
                }
                let mut g = results.lock().unwrap();
                g.0.merge(st);
                if g.1.is_none() {
                    g.1 = fail;
                }
            });
        }
    });
    results.into_inner().unwrap()
}

fn random_stage(prop: &dyn Prop, tier: Tier, seed: u64, findings: &Findings, threads: usize, stop: &AtomicBool) -> (Stats, Option<Failure>) {
    let total = prop.random_cases(tier);
    if total == 0 {
        return (Stats::default(), None);
    }
    let shards = threads.max(1);
    let per = (total + shards - 1) / shards;
    let len = prop.stream_len(tier);
    let results: Mutex<(Stats, Option<Failure>)> = Mutex::new((Stats::default(), None));
    std::thread::scope(|sc| {
        for shard in 0..shards {
            let results = &results;
            sc.spawn(move || {
                let beat = new_beat();
                let stats = RefCell::new(Stats::default());
                let failed = Cell::new(false);
                let cfg = Config {
                    cases: per as u32,
                    failure_persistence: None,
                    rng_seed: RngSeed::Fixed(seed_for(seed, prop.id(), shard as u64 ^ 0xABCD00)),
                    max_shrink_iters: 1500,
                    ..Config::default()
                };
                let mut runner = TestRunner::new(cfg);
                let res = runner.run(&pvec(any::<u32>(), len..=len), |v| {
                    if !failed.get() && stop.load(Ordering::Relaxed) {
                        return Ok(());
                    }
                    beat.begin(&v);
                    let counting = !failed.get();
                    let rendering = counting && stats.borrow().samples.len() < 2;
                    let (out, mut case) = run_one(prop, &v, tier, rendering, findings);
                    beat.end();
                    if let Outcome::Fail(m) = &out {
                        failed.set(true);
                        stop.store(true, Ordering::Relaxed);
                        return Err(TestCaseError::fail(m.clone()));
                    }
                    if counting {
                        stats.borrow_mut().absorb(&mut case, &out);
                    }
                    Ok(())
                });
                let mut fail = None;
                match res {
                    Ok(()) => {}
                    Err(TestError::Fail(_, v)) => {
                        let mut small = v;
                        small = shrink_stream(prop, &small, 0, tier, findings);
                        let (msg, rendered) = render_failure(prop, &small, tier, findings);
                        fail = Some(Failure { engine: "proptest", stream: small, message: msg, rendered });
                    }
                    Err(TestError::Abort(r)) => {
                        crate::out(&format!("note: proptest aborted a shard: {}", r));
                    }
                }
                let mut g = results.lock().unwrap();
                g.0.merge(stats.into_inner());
                if g.1.is_none() {
                    g.1 = fail;
                }
            });
        }
    });
    results.into_inner().unwrap()
}

fn regress_stage(prop: &dyn Prop, tier: Tier, findings: &Findings) -> (Stats, Option<Failure>, usize) {
    let dir = format!("{}/regress/{}", crate::verif_dir(), prop.id());
    let mut st = Stats::default();
    let mut n = 0;
    let mut files: Vec<_> = match std::fs::read_dir(&dir) {
        Ok(rd) => rd.filter_map(|e| e.ok()).map(|e| e.path()).filter(|p| p.extension().map(|x| x == "json").unwrap_or(false)).collect(),
        Err(_) => return (st, None, 0),
    };
    files.sort();
    for f in files {
        let Some(stream) = read_replay_stream(f.to_str().unwrap()) else { continue };
        n += 1;
        // a regression input decodes under the tier it was recorded in (sizes may depend on the tier), whatever tier runs it
        let tier = read_replay_tier(f.to_str().unwrap()).unwrap_or(tier);
        let (out, mut case) = run_one(prop, &stream, tier, st.samples.len() < 2, findings);
        if let Outcome::Fail(_) = &out {
            let (msg, rendered) = render_failure(prop, &stream, tier, findings);
            return (st, Some(Failure { engine: "regress", stream, message: format!("{} [{}]", msg, f.display()), rendered }), n);
        }
        st.absorb(&mut case, &out);
    }
    (st, None, n)
}

pub fn read_replay_stream(path: &str) -> Option<Vec<u32>> {
    let txt = std::fs::read_to_string(path).ok()?;
    let v: Value = serde_json::from_str(&txt).ok()?;
    let arr = v.get("stream")?.as_array()?;
    Some(arr.iter().filter_map(|x| x.as_u64()).map(|x| x as u32).collect())
}

pub fn read_replay_tier(path: &str) -> Option<Tier> {
    let txt = std::fs::read_to_string(path).ok()?;
    let v: Value = serde_json::from_str(&txt).ok()?;
    match v.get("tier")?.as_str()? {
        "quick" => Some(Tier::Quick),
        "thorough" => Some(Tier::Thorough),
        _ => None,
    }
}

pub fn write_replay(prop_id: &str, f: &Failure) -> String {
    write_replay_tier(prop_id, f, None)
}

/// the replay file records the tier whose decoding produced the failure (sizes may depend on the tier)
pub fn write_replay_tier(prop_id: &str, f: &Failure, tier: Option<Tier>) -> String {
    let dir = format!("{}/replays", crate::verif_dir());
    let _ = std::fs::create_dir_all(&dir);
    let mut h: u64 = 0xcbf29ce484222325;
    for v in &f.stream {
        h = (h ^ *v as u64).wrapping_mul(0x100000001b3);
    }
    let path = format!("{}/{}-{:016x}.json", dir, prop_id, h);
    let mut doc = json!({
        "property": prop_id,
        "engine": f.engine,
        "stream": f.stream,
        "message": f.message,
        "rendered_case": f.rendered,
    });
    if let Some(t) = tier {
        doc["tier"] = json!(t.name());
    }
    let _ = std::fs::write(&path, serde_json::to_string_pretty(&doc).unwrap());
    path
}

pub struct RunResult {
    pub exit: i32,
}

pub struct FuzzInfo {
    pub note: String,
    pub executions: u64,
    pub failure: Option<Failure>,
}

pub fn run_property(prop: &dyn Prop, tier: Tier, seed: u64, findings: &Findings, fuzz: Option<&dyn Fn() -> FuzzInfo>) -> RunResult {
    let t0 = Instant::now();
    let threads = if prop.parallel() { std::thread::available_parallelism().map(|n| n.get()).unwrap_or(4).min(16) } else { 1 };
    let stop = AtomicBool::new(false);
    let mut stats = Stats::default();
    let mut failure: Option<Failure> = None;

    let (st, f, nreg) = regress_stage(prop, tier, findings);
    stats.merge(st);
    failure = failure.or(f);

    let mut enum_cfgs = 0;
    if failure.is_none() {
        let (st, f) = enum_stage(prop, tier, seed, findings, threads, &stop);
        enum_cfgs = st.enum_cfgs;
        stats.merge(st);
        failure = failure.or(f);
    }
    if failure.is_none() {
        let (st, f) = random_stage(prop, tier, seed, findings, threads, &stop);
        stats.merge(st);
        failure = failure.or(f);
    }
    let mut fuzz_note = Value::Null;
    if failure.is_none() {
        if let Some(fz) = fuzz {
            let info = fz();
            fuzz_note = json!({"note": info.note, "executions": info.executions});
            failure = info.failure;
        }
    }

    let wall = t0.elapsed().as_secs_f64();
    let violations = if failure.is_some() { 1 } else { 0 };
    let mut known_lines = Vec::new();
    for (k, (n, what)) in &stats.known {
        known_lines.push(format!("KNOWN-FINDING: property={} {}: {} ({} generated cases hit it)", prop.id(), k, what, n));
    }
    // listed known findings are always reported (the canonical input is re-run by the property)
    let mut samples: Vec<Value> = stats.samples.iter().map(|s| Value::String(s.clone())).collect();
    if samples.is_empty() {
        samples.push(Value::String("<no non-trivial sample rendered>".into()));
    }
    let ev = json!({
        "property_id": prop.id(),
        "tier": tier.name(),
        "seed": seed,
        "level": "exploration",
        "coverage": {
            "evaluations": stats.evaluations,
            "distinct_nontrivial": stats.distinct.len(),
            "nontrivial_total": stats.nontrivial,
            "rule": prop.rule(),
            "samples": samples,
            "exhaustive": prop.enum_note(tier).is_some(),
            "enumerated_configurations": enum_cfgs,
            "enumeration": prop.enum_note(tier),
            "regression_inputs": nreg,
            "classes": stats.classes,
            "discards": stats.discards,
            "known_finding_hits": stats.known.iter().map(|(k,(n,_))| (k.clone(), json!(n))).collect::<serde_json::Map<_,_>>(),
            "fuzz": fuzz_note,
            "threads": threads,
        },
        "assumptions": prop.assumptions(),
        "wall_s": wall,
        "violations": violations,
    });
    let evdir = format!("{}/evidence", crate::verif_dir());
    let _ = std::fs::create_dir_all(&evdir);
    let _ = std::fs::write(format!("{}/{}.json", evdir, prop.id()), serde_json::to_string_pretty(&ev).unwrap());

    for l in &known_lines {
        crate::out(l);
    }
    if let Some(f) = failure {
        let path = write_replay_tier(prop.id(), &f, if f.engine == "regress" { None } else { Some(tier) });
        crate::out(&format!("VIOLATION property={} replay={}", prop.id(), path));
        crate::out(&format!("  engine={} message: {}", f.engine, f.message));
        crate::out(&format!("  case: {}", f.rendered));
        return RunResult { exit: 1 };
    }
    crate::out(&format!(
        "OK property={} tier={} seed={} evaluations={} distinct_nontrivial={} discards={} wall={:.1}s",
        prop.id(),
        tier.name(),
        seed,
        stats.evaluations,
        stats.distinct.len(),
        stats.discards.values().sum::<u64>(),
        wall
    ));
    RunResult { exit: 0 }
}

pub fn replay(prop: &dyn Prop, path: &str, findings: &Findings) -> i32 {
    let Some(stream) = read_replay_stream(path) else {
        crate::out(&format!("cannot read replay file {}", path));
        return 2;
    };
    let mut worst = 0;
    let tiers: Vec<Tier> = match read_replay_tier(path) {
        Some(t) => vec![t],
        None => vec![Tier::Quick, Tier::Thorough],
    };
    for tier in tiers {
        let (out, case) = run_one(prop, &stream, tier, true, findings);
        let rendered = case.render.unwrap_or_default();
        match out {
            Outcome::Fail(m) => {
                crate::out(&format!("VIOLATION property={} replay={}", prop.id(), path));
                crate::out(&format!("  message: {}", m));
                crate::out(&format!("  case: {}", rendered));
                return 1;
            }
            Outcome::Known(k, w) => {
                crate::out(&format!("KNOWN-FINDING: property={} {}: {}", prop.id(), k, w));
            }
            Outcome::Pass => {
                crate::out(&format!("replay passes (tier {}): {}", tier.name(), rendered));
            }
            Outcome::Discard(r) => {
                crate::out(&format!("replay discarded (tier {}): {}", tier.name(), r));
                worst = worst.max(0);
            }
        }
    }
    worst
}
