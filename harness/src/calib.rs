//! Calibration aid: with VERIF_CALIB=1 the checks record the worst observed
//! ratio (observed error / bound unit) per named quantity; printed at exit.
//! Used once on the pinned tree to fix the tolerance constants (recorded next
//! to each bound); inactive in normal runs.

use std::collections::BTreeMap;
use std::sync::atomic::{AtomicBool, Ordering};
use std::sync::Mutex;

static ON: AtomicBool = AtomicBool::new(false);
static MAXES: Mutex<BTreeMap<&'static str, (f64, String)>> = Mutex::new(BTreeMap::new());

pub fn init() {
    if std::env::var("VERIF_CALIB").map(|v| v == "1").unwrap_or(false) {
        ON.store(true, Ordering::Relaxed);
    }
}
#[inline]
pub fn on() -> bool {
    ON.load(Ordering::Relaxed)
}
#[inline]
pub fn note(name: &'static str, v: f64, ctx: impl FnOnce() -> String) {
    if !on() {
        return;
    }
    let mut g = MAXES.lock().unwrap();
    let e = g.entry(name).or_insert((f64::NEG_INFINITY, String::new()));
    if v > e.0 || v.is_nan() {
        *e = (v, ctx());
    }
}
pub fn report() {
    if !on() {
        return;
    }
    for (k, (v, c)) in MAXES.lock().unwrap().iter() {
        crate::out(&format!("CALIB {} max={:.4e} at {}", k, v, c));
    }
}
