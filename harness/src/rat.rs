//! Exact rationals over i128 implementing ohsl's public numeric traits, so the
//! *generic library code* runs exactly.  Any overflow sets a thread-local flag;
//! the case is then discarded, never judged.  Division by zero panics (like
//! integer division) so a library division by a zero pivot is visible.

use core::ops::{Add, AddAssign, Div, DivAssign, Mul, MulAssign, Neg, Sub, SubAssign};
use ohsl::traits::{Number, One, Signed, Zero};
use std::cell::Cell;
use std::cmp::Ordering;
use std::fmt;

thread_local! {
    static OVF: Cell<bool> = const { Cell::new(false) };
}

pub fn reset_overflow() {
    OVF.with(|c| c.set(false));
}
pub fn overflowed() -> bool {
    OVF.with(|c| c.get())
}
#[cold]
fn flag() -> Rat {
    OVF.with(|c| c.set(true));
    Rat { n: 0, d: 1 }
}

#[derive(Clone, Copy)]
pub struct Rat {
    n: i128,
    d: i128,
}

#[inline]
fn gcd(mut a: i128, mut b: i128) -> i128 {
    a = a.wrapping_abs();
    b = b.wrapping_abs();
    if a < 0 || b < 0 {
        return 1;
    }
    while b != 0 {
        let t = a % b;
        a = b;
        b = t;
    }
    a
}

pub const DIV0: &str = "Rat: division by zero";

impl Rat {
    #[inline]
    pub const fn int(n: i64) -> Rat {
        Rat { n: n as i128, d: 1 }
    }
    pub fn new(n: i64, d: i64) -> Rat {
        assert!(d != 0);
        Rat::norm(n as i128, d as i128)
    }
    #[inline]
    fn norm(mut n: i128, mut d: i128) -> Rat {
        if d < 0 {
            // (i128::MIN cannot be negated: an overflow like any other, the case is discarded)
            match (n.checked_neg(), d.checked_neg()) {
                (Some(a), Some(b)) => {
                    n = a;
                    d = b;
                }
                _ => return flag(),
            }
        }
        if n == i128::MIN {
            return flag();
        }
        if d == 1 {
            return Rat { n, d };
        }
        let g = gcd(n, d);
        if g > 1 {
            n /= g;
            d /= g;
        }
        Rat { n, d }
    }
    #[inline]
    pub fn is_zero(&self) -> bool {
        self.n == 0
    }
    pub fn num(&self) -> i128 {
        self.n
    }
    pub fn den(&self) -> i128 {
        self.d
    }
    pub fn to_f64(&self) -> f64 {
        self.n as f64 / self.d as f64
    }
    pub fn signum(&self) -> i32 {
        self.n.signum() as i32
    }
    pub fn rabs(&self) -> Rat {
        match self.n.checked_abs() {
            Some(n) => Rat { n, d: self.d },
            None => flag(),
        }
    }
    /// exact conversion of a (dyadic) f64; None when not representable in range
    pub fn from_f64(x: f64) -> Option<Rat> {
        if !x.is_finite() {
            return None;
        }
        if x == 0.0 {
            return Some(Rat::int(0));
        }
        let bits = x.to_bits();
        let sign = if bits >> 63 == 1 { -1i128 } else { 1 };
        let e = ((bits >> 52) & 0x7ff) as i64;
        let m = bits & ((1u64 << 52) - 1);
        let (mant, exp) = if e == 0 { (m, -1074i64) } else { (m | (1u64 << 52), e - 1075) };
        let tz = mant.trailing_zeros() as i64;
        let mant = (mant >> tz) as i128;
        let exp = exp + tz;
        if exp >= 0 {
            if exp > 60 {
                return None;
            }
            Some(Rat { n: sign * (mant << exp), d: 1 })
        } else {
            if -exp > 100 {
                return None;
            }
            Some(Rat { n: sign * mant, d: 1i128 << (-exp) })
        }
    }
}

impl fmt::Debug for Rat {
    fn fmt(&self, f: &mut fmt::Formatter<'_>) -> fmt::Result {
        if self.d == 1 {
            write!(f, "{}", self.n)
        } else {
            write!(f, "{}/{}", self.n, self.d)
        }
    }
}
impl fmt::Display for Rat {
    fn fmt(&self, f: &mut fmt::Formatter<'_>) -> fmt::Result {
        fmt::Debug::fmt(self, f)
    }
}
impl Default for Rat {
    fn default() -> Self {
        Rat::int(0)
    }
}
impl PartialEq for Rat {
    #[inline]
    fn eq(&self, o: &Rat) -> bool {
        self.n == o.n && self.d == o.d
    }
}
impl Eq for Rat {}
impl std::hash::Hash for Rat {
    fn hash<H: std::hash::Hasher>(&self, h: &mut H) {
        self.n.hash(h);
        self.d.hash(h);
    }
}
impl PartialOrd for Rat {
    #[inline]
    fn partial_cmp(&self, o: &Rat) -> Option<Ordering> {
        Some(self.cmp(o))
    }
}
impl Ord for Rat {
    #[inline]
    fn cmp(&self, o: &Rat) -> Ordering {
        if self.d == o.d {
            return self.n.cmp(&o.n);
        }
        match (self.n.checked_mul(o.d), o.n.checked_mul(self.d)) {
            (Some(a), Some(b)) => a.cmp(&b),
            _ => {
                flag();
                Ordering::Equal
            }
        }
    }
}

impl Add for Rat {
    type Output = Rat;
    #[inline]
    fn add(self, o: Rat) -> Rat {
        if self.d == 1 && o.d == 1 {
            return match self.n.checked_add(o.n) {
                Some(n) => Rat { n, d: 1 },
                None => flag(),
            };
        }
        let g = gcd(self.d, o.d);
        let (da, db) = (self.d / g, o.d / g);
        let n = match (self.n.checked_mul(db), o.n.checked_mul(da)) {
            (Some(a), Some(b)) => match a.checked_add(b) {
                Some(n) => n,
                None => return flag(),
            },
            _ => return flag(),
        };
        let d = match self.d.checked_mul(db) {
            Some(d) => d,
            None => return flag(),
        };
        Rat::norm(n, d)
    }
}
impl Neg for Rat {
    type Output = Rat;
    #[inline]
    fn neg(self) -> Rat {
        match self.n.checked_neg() {
            Some(n) => Rat { n, d: self.d },
            None => flag(),
        }
    }
}
impl Sub for Rat {
    type Output = Rat;
    #[inline]
    fn sub(self, o: Rat) -> Rat {
        self + (-o)
    }
}
impl Mul for Rat {
    type Output = Rat;
    #[inline]
    fn mul(self, o: Rat) -> Rat {
        if self.d == 1 && o.d == 1 {
            return match self.n.checked_mul(o.n) {
                Some(n) => Rat { n, d: 1 },
                None => flag(),
            };
        }
        if self.n == 0 || o.n == 0 {
            return Rat { n: 0, d: 1 };
        }
        let g1 = gcd(self.n, o.d);
        let g2 = gcd(o.n, self.d);
        let n = (self.n / g1).checked_mul(o.n / g2);
        let d = (self.d / g2).checked_mul(o.d / g1);
        match (n, d) {
            (Some(n), Some(d)) => Rat { n, d },
            _ => flag(),
        }
    }
}
impl Div for Rat {
    type Output = Rat;
    #[inline]
    fn div(self, o: Rat) -> Rat {
        if o.n == 0 {
            if overflowed() {
                // garbage after an overflow: keep going, the case is discarded anyway
                return Rat { n: 0, d: 1 };
            }
            panic!("{}", DIV0);
        }
        let r = if o.n < 0 { Rat { n: -o.d, d: -o.n } } else { Rat { n: o.d, d: o.n } };
        self * r
    }
}
impl AddAssign for Rat {
    #[inline]
    fn add_assign(&mut self, o: Rat) {
        *self = *self + o;
    }
}
impl SubAssign for Rat {
    #[inline]
    fn sub_assign(&mut self, o: Rat) {
        *self = *self - o;
    }
}
impl MulAssign for Rat {
    #[inline]
    fn mul_assign(&mut self, o: Rat) {
        *self = *self * o;
    }
}
impl DivAssign for Rat {
    #[inline]
    fn div_assign(&mut self, o: Rat) {
        *self = *self / o;
    }
}
impl Zero for Rat {
    #[inline]
    fn zero() -> Rat {
        Rat::int(0)
    }
}
impl One for Rat {
    #[inline]
    fn one() -> Rat {
        Rat::int(1)
    }
}
impl Number for Rat {}
impl Signed for Rat {
    #[inline]
    fn abs(&self) -> Rat {
        self.rabs()
    }
}

#[cfg(test)]
mod tests {
    use super::*;
    #[test]
    fn basics() {
        let a = Rat::new(1, 2);
        let b = Rat::new(1, 3);
        assert_eq!(a + b, Rat::new(5, 6));
        assert_eq!(a * b, Rat::new(1, 6));
        assert_eq!(a / b, Rat::new(3, 2));
        assert_eq!(a - b, Rat::new(1, 6));
        assert!(b < a);
        assert_eq!(Rat::from_f64(0.375), Some(Rat::new(3, 8)));
        assert_eq!(Rat::from_f64(-6.0), Some(Rat::int(-6)));
        assert!(!overflowed());
    }
}
