//! Value generators over the choice stream and the `Elem` abstraction that lets
//! one check body run over `Rat`, `f64` and `Cmplx`.

use crate::rat::Rat;
use crate::refla::{Field, CR};
use crate::stream::Src;
use core::ops::Neg;
use ohsl::traits::{Number, Signed};
use ohsl::Cmplx;
use std::fmt::Debug;

const RAT_MENU: [(i64, i64); 24] = [
    (0, 1), (1, 1), (-1, 1), (2, 1), (-2, 1), (3, 1), (-3, 1), (1, 2),
    (-1, 2), (4, 1), (5, 1), (-5, 1), (1, 3), (-2, 3), (3, 2), (-7, 1),
    (7, 4), (-4, 1), (6, 1), (-9, 2), (10, 1), (-11, 3), (13, 5), (-8, 1),
];

/// small rational from an ordered menu (0 first)
pub fn rat(src: &mut Src) -> Rat {
    let (n, d) = RAT_MENU[src.below(RAT_MENU.len() as u32) as usize];
    Rat::new(n, d)
}
pub fn rat_nz(src: &mut Src) -> Rat {
    let (n, d) = RAT_MENU[1 + src.below(RAT_MENU.len() as u32 - 1) as usize];
    Rat::new(n, d)
}
/// small integer rational in -m..=m
pub fn rat_int(src: &mut Src, m: i64) -> Rat {
    Rat::int(src.small_int(m))
}

/// f64 with magnitude 10^[lo_exp, hi_exp], random sign, full random mantissa
pub fn f64_log(src: &mut Src, lo_exp: f64, hi_exp: f64) -> f64 {
    let e = src.f64_in(lo_exp, hi_exp);
    let s = if src.coin() { -1.0 } else { 1.0 };
    s * 10f64.powf(e)
}
/// "ordinary" f64: menu of 0, +-1, small ints, then continuous in [-10,10]
pub fn f64_plain(src: &mut Src) -> f64 {
    match src.below(8) {
        0 => 0.0,
        1 => 1.0,
        2 => -1.0,
        3 => src.small_int(9) as f64,
        4 => src.small_int(64) as f64 / 8.0,
        _ => src.f64_in(-10.0, 10.0),
    }
}

pub trait Elem: Copy + Clone + Number + Signed + PartialOrd + Debug + Neg<Output = Self> + Send + Sync + 'static {
    const NAME: &'static str;
    const EXACT: bool;
    /// exact field the (dyadic) values embed into: Rat for rat/f64, Gaussian rationals for cmplx
    type X: Field + Debug;
    fn to_exact(&self) -> Option<Self::X>;
    fn x_to_c(x: &Self::X) -> (f64, f64);
    /// bitwise identity (floats) / equality (exact)
    fn same(&self, o: &Self) -> bool;
    fn from_int(i: i64) -> Self;
    /// small exactly representable value (integers / Gaussian integers / small rationals); may be zero
    fn small(src: &mut Src) -> Self;
    fn small_nz(src: &mut Src) -> Self {
        loop {
            let v = Self::small(src);
            if !v.is_zero_e() {
                return v;
            }
            // exhausted stream always yields zero: fall back to one
            if src.consumed() > 100_000 {
                return Self::from_int(1);
            }
        }
    }
    /// "continuous" value with a full random mantissa in (-1,1) (exact types: same as `small`)
    fn cont(src: &mut Src) -> Self {
        Self::small(src)
    }
    /// exact scaling by 2^k (exact types: multiplication by the rational 2^k)
    fn scale2(self, k: i32) -> Self;
    /// multiplication by the imaginary unit (complex types; the identity for real ones)
    fn times_i(self) -> Self {
        self
    }
    fn to_c(&self) -> (f64, f64);
    fn finite(&self) -> bool;
    fn is_zero_e(&self) -> bool;
}

impl Elem for Rat {
    const NAME: &'static str = "rat";
    const EXACT: bool = true;
    type X = Rat;
    fn to_exact(&self) -> Option<Rat> {
        Some(*self)
    }
    fn x_to_c(x: &Rat) -> (f64, f64) {
        (x.to_f64(), 0.0)
    }
    fn same(&self, o: &Self) -> bool {
        self == o
    }
    fn from_int(i: i64) -> Self {
        Rat::int(i)
    }
    fn small(src: &mut Src) -> Self {
        rat(src)
    }
    fn small_nz(src: &mut Src) -> Self {
        rat_nz(src)
    }
    fn scale2(self, k: i32) -> Self {
        if k >= 0 { self * Rat::int(1i64 << k.min(40)) } else { self / Rat::int(1i64 << (-k).min(40)) }
    }
    fn to_c(&self) -> (f64, f64) {
        (self.to_f64(), 0.0)
    }
    fn finite(&self) -> bool {
        true
    }
    fn is_zero_e(&self) -> bool {
        self.is_zero()
    }
}
impl Elem for f64 {
    const NAME: &'static str = "f64";
    const EXACT: bool = false;
    type X = Rat;
    fn to_exact(&self) -> Option<Rat> {
        Rat::from_f64(*self)
    }
    fn x_to_c(x: &Rat) -> (f64, f64) {
        (x.to_f64(), 0.0)
    }
    fn same(&self, o: &Self) -> bool {
        self.to_bits() == o.to_bits()
    }
    fn from_int(i: i64) -> Self {
        i as f64
    }
    fn small(src: &mut Src) -> Self {
        src.small_int(6) as f64
    }
    fn small_nz(src: &mut Src) -> Self {
        let v = src.small_int(6) as f64;
        if v == 0.0 {
            1.0
        } else {
            v
        }
    }
    fn cont(src: &mut Src) -> Self {
        src.f64_in(-1.0, 1.0)
    }
    fn scale2(self, k: i32) -> Self {
        self * 2f64.powi(k)
    }
    fn to_c(&self) -> (f64, f64) {
        (*self, 0.0)
    }
    fn finite(&self) -> bool {
        self.is_finite()
    }
    fn is_zero_e(&self) -> bool {
        *self == 0.0
    }
}
impl Elem for Cmplx {
    const NAME: &'static str = "cmplx";
    const EXACT: bool = false;
    type X = CR;
    fn to_exact(&self) -> Option<CR> {
        Some(CR::new(Rat::from_f64(self.real)?, Rat::from_f64(self.imag)?))
    }
    fn x_to_c(x: &CR) -> (f64, f64) {
        x.to_c()
    }
    fn same(&self, o: &Self) -> bool {
        self.real.to_bits() == o.real.to_bits() && self.imag.to_bits() == o.imag.to_bits()
    }
    fn from_int(i: i64) -> Self {
        Cmplx::new(i as f64, 0.0)
    }
    fn small(src: &mut Src) -> Self {
        Cmplx::new(src.small_int(4) as f64, src.small_int(4) as f64)
    }
    fn small_nz(src: &mut Src) -> Self {
        let v = Self::small(src);
        if v.real == 0.0 && v.imag == 0.0 {
            Cmplx::new(0.0, 1.0)
        } else {
            v
        }
    }
    fn cont(src: &mut Src) -> Self {
        Cmplx::new(src.f64_in(-1.0, 1.0), src.f64_in(-1.0, 1.0))
    }
    fn scale2(self, k: i32) -> Self {
        Cmplx::new(self.real * 2f64.powi(k), self.imag * 2f64.powi(k))
    }
    fn times_i(self) -> Self {
        Cmplx::new(-self.imag, self.real)
    }
    fn to_c(&self) -> (f64, f64) {
        (self.real, self.imag)
    }
    fn finite(&self) -> bool {
        self.real.is_finite() && self.imag.is_finite()
    }
    fn is_zero_e(&self) -> bool {
        self.real == 0.0 && self.imag == 0.0
    }
}

pub fn fmt_mat<T: Debug>(a: &[Vec<T>]) -> String {
    let rows: Vec<String> = a.iter().map(|r| format!("{:?}", r)).collect();
    format!("[{}]", rows.join(", "))
}
