//! ohsl-verif: property-based testing / fuzzing harness for anthonyoneill/ohsl.
pub mod calib;
pub mod dd;
pub mod engine;
pub mod findings;
pub mod gen;
pub mod props;
pub mod rat;
pub mod refla;
pub mod stream;

use std::sync::atomic::{AtomicI32, Ordering};

static OUT_FD: AtomicI32 = AtomicI32::new(1);

pub fn verif_dir() -> String {
    std::env::var("VERIF_DIR").unwrap_or_else(|_| "/verif".to_string())
}

/// `Newton<Cmplx>::solve` prints a line per iteration: keep our own copy of fd 1
/// and point fd 1 at /dev/null.
pub fn silence_stdout() {
    unsafe {
        let saved = libc::dup(1);
        if saved >= 0 {
            let devnull = libc::open(b"/dev/null\0".as_ptr() as *const libc::c_char, libc::O_WRONLY);
            if devnull >= 0 {
                libc::dup2(devnull, 1);
                libc::close(devnull);
                OUT_FD.store(saved, Ordering::SeqCst);
            }
        }
    }
}

/// write one line to the harness's real stdout
pub fn out(line: &str) {
    let fd = OUT_FD.load(Ordering::SeqCst);
    let mut s = String::with_capacity(line.len() + 1);
    s.push_str(line);
    s.push('\n');
    let bytes = s.as_bytes();
    let mut off = 0;
    while off < bytes.len() {
        let n = unsafe { libc::write(fd, bytes[off..].as_ptr() as *const libc::c_void, bytes.len() - off) };
        if n <= 0 {
            break;
        }
        off += n as usize;
    }
}
