//! Known findings: `/verif/known_findings.json`, committed, read-only at run time.
//! A `known` entry names a signature key; the property's own signature function
//! decides from the *input alone* whether a failing case belongs to it.
//! `fixed` entries suppress nothing.

use serde_json::Value;

#[derive(Default, Debug)]
pub struct Findings {
    pub known: Vec<(String, String, String)>, // (property, key, description)
}

impl Findings {
    pub fn load() -> Findings {
        let path = format!("{}/known_findings.json", crate::verif_dir());
        let mut f = Findings::default();
        let Ok(txt) = std::fs::read_to_string(&path) else { return f };
        let Ok(v) = serde_json::from_str::<Value>(&txt) else { return f };
        let Some(arr) = v.get("findings").and_then(|a| a.as_array()) else { return f };
        for e in arr {
            let status = e.get("status").and_then(|s| s.as_str()).unwrap_or("");
            if status != "known" {
                continue;
            }
            let p = e.get("property").and_then(|s| s.as_str()).unwrap_or("").to_string();
            let k = e.get("key").and_then(|s| s.as_str()).unwrap_or("").to_string();
            let d = e.get("description").and_then(|s| s.as_str()).unwrap_or("").to_string();
            f.known.push((p, k, d));
        }
        f
    }
    pub fn empty() -> Findings {
        Findings::default()
    }
    pub fn is_known(&self, prop: &str, key: &str) -> bool {
        self.known.iter().any(|(p, k, _)| p == prop && k == key)
    }
}
