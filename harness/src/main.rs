use ohsl_verif::engine::{self, Tier};
use ohsl_verif::findings::Findings;

fn usage() -> ! {
    eprintln!("usage: ohsl-verif --property <ID> --tier <quick|thorough> [--seed N] [--replay FILE] [--no-fuzz]");
    std::process::exit(2);
}

fn main() {
    let args: Vec<String> = std::env::args().collect();
    let mut id = None;
    let mut tier = Tier::Quick;
    let mut seed: u64 = std::env::var("VERIF_SEED").ok().and_then(|s| s.trim().parse::<i64>().ok()).map(|v| v as u64).unwrap_or(0);
    let mut replay = None;
    let mut list = false;
    let mut slen = false;
    let mut dump: Option<String> = None;
    let mut i = 1;
    while i < args.len() {
        match args[i].as_str() {
            "--property" => { i += 1; id = args.get(i).cloned(); }
            "--tier" => { i += 1; tier = match args.get(i).map(|s| s.as_str()) { Some("quick") => Tier::Quick, Some("thorough") => Tier::Thorough, _ => usage() }; }
            "--seed" => { i += 1; seed = args.get(i).and_then(|s| s.parse::<i64>().ok()).map(|v| v as u64).unwrap_or_else(|| usage()); }
            "--replay" => { i += 1; replay = args.get(i).cloned(); }
            "--list" => list = true,
            "--stream-len" => slen = true,
            "--dump-corpus" => { i += 1; dump = args.get(i).cloned(); }
            _ => usage(),
        }
        i += 1;
    }
    if list {
        for p in ohsl_verif::props::all() { println!("{}", p.id()); }
        return;
    }
    let Some(id) = id else { usage() };
    let Some(prop) = ohsl_verif::props::all().into_iter().find(|p| p.id() == id) else {
        eprintln!("unknown property {}", id);
        std::process::exit(2);
    };
    if slen {
        println!("{}", prop.stream_len(tier).min(2048));
        return;
    }
    if let Some(dir) = dump {
        // seed corpus for the libFuzzer stage: regression streams, enumerated prefixes and random tails
        let _ = std::fs::create_dir_all(&dir);
        let len = prop.stream_len(tier).min(2048);
        let mut n = 0;
        let mut put = |s: &[u32]| {
            let _ = std::fs::write(format!("{}/seed-{:04}", dir, n), ohsl_verif::stream::stream_to_bytes(s));
            n += 1;
        };
        if let Ok(rd) = std::fs::read_dir(format!("{}/regress/{}", ohsl_verif::verif_dir(), prop.id())) {
            for e in rd.flatten() {
                if let Some(st) = engine::read_replay_stream(e.path().to_str().unwrap()) { put(&st); }
            }
        }
        let pre = prop.enum_prefixes(tier);
        let mut tail = ohsl_verif::stream::Tail(seed ^ 0x5EED);
        let step = (pre.len() / 48).max(1);
        for p in pre.iter().step_by(step) { let s = tail.fill(p, len); put(&s); }
        for _ in 0..64 { let s = tail.fill(&[], len); put(&s); }
        println!("{} corpus files written to {}", n, dir);
        return;
    }
    ohsl_verif::silence_stdout();
    engine::install_panic_hook();
    ohsl_verif::calib::init();
    let findings = Findings::load();
    if let Some(path) = replay {
        std::process::exit(engine::replay(prop.as_ref(), &path, &findings));
    }
    engine::spawn_watchdog(prop.id());
    let r = engine::run_property(prop.as_ref(), tier, seed, &findings, None);
    ohsl_verif::calib::report();
    ohsl_verif::props::c19::cleanup_scratch();
    std::process::exit(r.exit);
}
